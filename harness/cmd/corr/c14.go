package main

import (
	"bytes"
	"fmt"
	"math"
	"reflect"
	"runtime"
	"runtime/debug"
	"strings"
	"sync/atomic"

	"github.com/CrowdStrike/csproto"
	"github.com/CrowdStrike/csproto/lazyproto"
	"google.golang.org/protobuf/encoding/protowire"

	"csverif/internal/fw"
	"csverif/internal/prng"
)

func init() { props["C14"] = runC14 }

type lzHandle struct {
	res    *lazyproto.DecodeResult
	input  []byte // the bytes this result was decoded from (nil result: empty)
	def    *lzDef
	root   int // handle of the root this (nested) handle belongs to
	nested bool
	dead   bool
}

type heldValue struct {
	what string
	live [][]byte
	snap [][]byte
	// typed slices (Int64Values, StringValues, …): the live value and its rendering when handed out
	typed     interface{}
	typedSnap string
}

func lastPayload(input []byte, tag int) ([]byte, bool) {
	recs, ok := refParse(input)
	if !ok {
		return nil, false
	}
	var last *refRec
	for i := range recs {
		if recs[i].num == tag {
			last = &recs[i]
		}
	}
	if last == nil || last.typ != protowire.BytesType {
		return nil, false
	}
	return last.payload, true
}

func allPayloads(input []byte, tag int) [][]byte {
	recs, _ := refParse(input)
	var out [][]byte
	for _, r := range recs {
		if r.num == tag {
			out = append(out, r.payload)
		}
	}
	return out
}

type optCombo struct {
	fast   bool
	maxBuf int // -1 = WithMaxBufferSize not given
	filter int // index into lzFilterNames; 0 = WithBufferFilterFunc not given
}

// the buffer filter functions: the answer is the capacity to trim to, a negative one means "leave the buffers alone"
var lzFilterNames = []string{"none", "to-1", "halve", "negative", "zero", "huge", "negative-up-to-4-else-2", "cycle(-1,0,3,-7)"}

func (o optCombo) String() string {
	return fmt.Sprintf("fast=%v maxBuffer=%d filter=%s", o.fast, o.maxBuf, lzFilterNames[o.filter])
}

// genOptCombo: mode x {no max, max 0 / 1 / 2 / 64} x {no filter, one of the filter functions}, every combination -
// in particular a filter WITHOUT a max buffer size and filters that answer with a negative capacity.
// The capacity options must never change what a result answers.
func genOptCombo(r *prng.Rng) optCombo {
	return optCombo{fast: r.Bool(), maxBuf: []int{-1, -1, 0, 1, 2, 64}[r.Intn(6)], filter: []int{0, 0, 1, 2, 3, 3, 4, 5, 6, 7}[r.Intn(10)]}
}

func (o optCombo) options() []lazyproto.Option {
	mode := csproto.DecoderModeSafe
	if o.fast {
		mode = csproto.DecoderModeFast
	}
	opts := []lazyproto.Option{lazyproto.WithMode(mode)}
	if o.maxBuf >= 0 {
		opts = append(opts, lazyproto.WithMaxBufferSize(o.maxBuf))
	}
	var f func(capacity int) int
	switch o.filter {
	case 1:
		f = func(capacity int) int { return 1 }
	case 2:
		f = func(capacity int) int { return capacity / 2 }
	case 3:
		f = func(capacity int) int { return -1 }
	case 4:
		f = func(capacity int) int { return 0 }
	case 5:
		f = func(capacity int) int { return math.MaxInt }
	case 6:
		f = func(capacity int) int {
			if capacity <= 4 {
				return -1
			}
			return 2
		}
	case 7:
		var calls atomic.Int64 // decoders are shared between goroutines in C15
		f = func(capacity int) int { return []int{-1, 0, 3, -7}[calls.Add(1)%4] }
	}
	if f != nil {
		opts = append(opts, lazyproto.WithBufferFilterFunc(f))
	}
	return opts
}

func poolHistory(c *fw.Ctx, steps int) {
	r := c.Rng
	fs := genLzFields(r, 0)
	def := genLzDef(r, fs, 0)
	// make sure histories exercise nested results often
	hasNested := false
	for _, e := range def.entries {
		if e.sub != nil {
			hasNested = true
		}
	}
	opt := genOptCombo(r)
	opts := opt.options()
	dec, err := lazyproto.NewDecoder(def.toDef(), opts...)
	if err != nil {
		return
	}
	// a pool of inputs of differing shapes over the same schema
	inputs := make([][]byte, 4+r.Intn(3))
	for i := range inputs {
		for _, f := range fs {
			f.count = []int{0, 1, 1, 2, 3, 5}[r.Intn(6)]
		}
		inputs[i] = encodeLz(r, fs)
	}
	if r.Chance(1, 3) {
		inputs[0] = nil
	}
	// malformed inputs: a well-formed prefix (so that fields ARE recorded) followed by a dangling key,
	// or the last byte cut off — Decode must fail and whatever it recorded must not leak into a later result
	malformed := map[int]bool{}
	if r.Chance(1, 2) {
		for k := 0; k < 1+r.Intn(2); k++ {
			src := inputs[len(inputs)-1-k%len(inputs)]
			if len(src) < 2 {
				continue
			}
			var bad []byte
			if r.Bool() {
				bad = append(append([]byte{}, src...), 0x08) // field 1, varint, no value
			} else {
				bad = append(append([]byte{}, src...), 0x12, 0x05, 0x41) // field 2, 5 bytes declared, 1 present
			}
			if _, err := lazyproto.Decode(bad, def.toDef()); err == nil {
				continue
			}
			malformed[len(inputs)] = true
			inputs = append(inputs, bad)
		}
	}
	// inputs that are well-formed at the top level but carry a repeated nested field whose LAST occurrence
	// is damaged: Decode succeeds, NestedResults decodes the good occurrences and then fails
	if hasNested && r.Chance(1, 2) {
		if idx := r.Intn(len(inputs)); !malformed[idx] {
			if bad, ok := nestedCorruptInput(r, def, fs, inputs[idx]); ok {
				inputs = append(inputs, bad)
			}
		}
	}
	header := fmt.Sprintf("L 1 %s", def.String())
	req := []string{header}
	var rep []string
	handles := map[int]*lzHandle{}
	objID := map[*lazyproto.DecodeResult]int{}
	nextH, nextObj := 0, 0
	var held []heldValue
	reused, decoded, phantom := 0, 0, 0
	desc := fmt.Sprintf("def=%s %s", def.String(), opt)
	violated := false
	violate := func(sig, what, expected, got string) {
		if violated {
			return
		}
		violated = true
		c.Violate(fw.Violation{Stream: "histories", Signature: sig, What: what,
			Input: map[string]interface{}{"decoder": desc, "history": strings.Join(req[1:], " ; ")}, Expected: trunc(expected, 300), Got: trunc(got, 300)})
	}
	choiceFor := func(p *lazyproto.DecodeResult) string {
		if id, ok := objID[p]; ok {
			reused++
			return fmt.Sprintf("reuse:%d", id)
		}
		objID[p] = nextObj
		nextObj++
		return fmt.Sprintf("new:%d", nextObj-1)
	}
	liveHandles := func(pred func(*lzHandle) bool) []int {
		var hs []int
		for h := 0; h < nextH; h++ {
			if hd, ok := handles[h]; ok && !hd.dead && pred(hd) {
				hs = append(hs, h)
			}
		}
		return hs
	}
	run := func(f func()) (panicked bool) {
		defer func() {
			if x := recover(); x != nil {
				panicked = true
			}
		}()
		f()
		return false
	}
	lastClosed := -1
	for step := 0; step < steps && !violated; step++ {
		c.Journal("C14 " + desc + " | " + trunc(strings.Join(req[1:], " ; "), 3000))
		x := r.Intn(100)
		roots := liveHandles(func(h *lzHandle) bool { return !h.nested })
		any := liveHandles(func(h *lzHandle) bool { return true })
		switch {
		case x < 25 || len(any) == 0: // decode
			inIdx := r.Intn(len(inputs))
			in := inputs[inIdx]
			var res *lazyproto.DecodeResult
			var derr error
			if run(func() { res, derr = dec.Decode(in) }) {
				req = append(req, fmt.Sprintf("decode %d %s new:%d", nextH, hexs(in), nextObj))
				rep = append(rep, "panic")
				violate("pool/decode-panic", "Decode panicked", "", "panic")
				break
			}
			decoded++
			lastClosed = -1
			switch {
			case derr != nil:
				// which object the failed pass used is not observable: the model takes a new one
				phantom++
				req = append(req, fmt.Sprintf("decode %d %s new:%d", nextH, hexs(in), 900000+phantom))
				rep = append(rep, "err")
				if !malformed[inIdx] {
					violate("pool/decode-error", "Decode failed on a well-formed message", "ok", derr.Error())
				}
			case res == nil:
				req = append(req, fmt.Sprintf("decode %d %s new:%d", nextH, hexs(in), nextObj))
				rep = append(rep, "nil")
				handles[nextH] = &lzHandle{res: nil, input: nil, def: def, root: nextH}
				nextH++
			default:
				req = append(req, fmt.Sprintf("decode %d %s %s", nextH, hexs(in), choiceFor(res)))
				rep = append(rep, "ok")
				handles[nextH] = &lzHandle{res: res, input: in, def: def, root: nextH}
				nextH++
			}
		case x < 60: // accessor on a live handle
			h := any[r.Intn(len(any))]
			hd := handles[h]
			var tag int
			if len(hd.def.entries) > 0 && !r.Chance(1, 8) {
				tag = hd.def.entries[r.Intn(len(hd.def.entries))].key
			} else {
				tag = 1 + r.Intn(12)
			}
			name := accNames[r.Intn(len(accNames))]
			names := []string{name}
			if r.Chance(1, 4) {
				// every accessor on this tag: the typed accessors keep per-kind scratch slices in the pooled
				// object, so each of them has to be exercised in several lives of one object
				names = accNames
			}
			var got string
			lastClosed = -1
			for _, name = range names {
				got = accessPath(hd.res, []int{tag}, name)
				req = append(req, fmt.Sprintf("acc %d %d %s", h, tag, name))
				rep = append(rep, got)
				if got == "panic" {
					violate("pool/accessor-panic/"+name, "accessor panicked", "", "panic")
					break
				}
				if want, ok := refPathAnswer(hd.input, hd.def, []int{tag}, name); ok && want != got {
					violate("pool/isolation/"+name, "a result exposed values that are not those of its own input", want, got)
				}
			}
			if got == "panic" {
				break
			}
			// safe mode: typed slices handed out (root and nested results alike) must survive too
			if !opt.fast && hd.res != nil && strings.HasPrefix(got, "ok") {
				if fd, err := hd.res.FieldData(tag); err == nil {
					// the first typed slice accessor that fits the field's wire type
					// every typed slice accessor that fits the field's wire type and value range
					for _, try := range []func() (interface{}, error){
						func() (interface{}, error) { return fd.BoolValues() },
						func() (interface{}, error) { return fd.StringValues() },
						func() (interface{}, error) { return fd.UInt32Values() },
						func() (interface{}, error) { return fd.Int32Values() },
						func() (interface{}, error) { return fd.SInt32Values() },
						func() (interface{}, error) { return fd.UInt64Values() },
						func() (interface{}, error) { return fd.Int64Values() },
						func() (interface{}, error) { return fd.SInt64Values() },
						func() (interface{}, error) { return fd.Fixed32Values() },
						func() (interface{}, error) { return fd.Fixed64Values() },
						func() (interface{}, error) { return fd.Float32Values() },
						func() (interface{}, error) { return fd.Float64Values() },
					} {
						if tv, err := try(); err == nil && reflect.ValueOf(tv).Len() > 0 {
							held = append(held, heldValue{what: fmt.Sprintf("%T values of tag %d of handle %d (nested=%v)", tv, tag, h, hd.nested), typed: tv, typedSnap: fmt.Sprint(tv)})
						}
					}
				}
			}
			// safe mode: remember handed-out byte slices to check they survive Close and later decodes
			if !opt.fast && hd.res != nil && (name == "Bytess" || name == "Bytes") && strings.HasPrefix(got, "ok") {
				if fd, err := hd.res.FieldData(tag); err == nil {
					if name == "Bytess" {
						if v, err := fd.BytesValues(); err == nil {
							hv := heldValue{what: fmt.Sprintf("BytesValues(%d) of handle %d", tag, h), live: v}
							for _, b := range v {
								hv.snap = append(hv.snap, append([]byte{}, b...))
							}
							held = append(held, hv)
						}
					} else if v, err := fd.BytesValue(); err == nil {
						held = append(held, heldValue{what: fmt.Sprintf("BytesValue(%d) of handle %d", tag, h), live: [][]byte{v}, snap: [][]byte{append([]byte{}, v...)}})
					}
				}
			}
		case x < 72 && hasNested: // NestedResult
			h := any[r.Intn(len(any))]
			hd := handles[h]
			tag := 1 + r.Intn(8)
			for _, e := range hd.def.entries {
				if e.sub != nil && r.Chance(3, 4) {
					tag = e.key
				}
			}
			if tag < 0 {
				tag = -tag
			}
			var nr *lazyproto.DecodeResult
			var nerr error
			lastClosed = -1
			if run(func() { nr, nerr = hd.res.NestedResult(tag) }) {
				req = append(req, fmt.Sprintf("nested %d %d %d new:%d", h, tag, nextH, nextObj))
				rep = append(rep, "panic")
				violate("pool/nested-panic", "NestedResult panicked", "", "panic")
				break
			}
			switch {
			case nerr != nil:
				req = append(req, fmt.Sprintf("nested %d %d %d new:%d", h, tag, nextH, nextObj))
				rep = append(rep, classifyLazyErr(nerr))
			case nr == nil:
				req = append(req, fmt.Sprintf("nested %d %d %d new:%d", h, tag, nextH, nextObj))
				rep = append(rep, "nil")
				handles[nextH] = &lzHandle{res: nil, def: hd.def.nestedFor(tag), root: hd.root, nested: true}
				nextH++
			default:
				req = append(req, fmt.Sprintf("nested %d %d %d %s", h, tag, nextH, choiceFor(nr)))
				rep = append(rep, "ok")
				payload, _ := lastPayload(hd.input, tag)
				handles[nextH] = &lzHandle{res: nr, input: payload, def: hd.def.nestedFor(tag), root: hd.root, nested: true}
				nextH++
			}
		case x < 80 && hasNested: // NestedResults
			h := any[r.Intn(len(any))]
			hd := handles[h]
			tag := 1 + r.Intn(8)
			for _, e := range hd.def.entries {
				if e.sub != nil && r.Chance(3, 4) {
					tag = e.key
				}
			}
			if tag < 0 {
				tag = -tag
			}
			var nrs []*lazyproto.DecodeResult
			var nerr error
			lastClosed = -1
			if run(func() { nrs, nerr = hd.res.NestedResults(tag) }) {
				req = append(req, fmt.Sprintf("nesteds %d %d - -", h, tag))
				rep = append(rep, "panic")
				violate("pool/nesteds-panic", "NestedResults panicked", "", "panic")
				break
			}
			if nerr != nil {
				// the model needs as many (handle, choice) slots as there are occurrences
				n := len(allPayloads(hd.input, tag))
				hs, cs := make([]string, n), make([]string, n)
				for i := range hs {
					hs[i], cs[i] = fmt.Sprint(nextH+i), fmt.Sprintf("new:%d", 900000+i)
				}
				req = append(req, fmt.Sprintf("nesteds %d %d %s %s", h, tag, dashJoin(hs), dashJoin(cs)))
				rep = append(rep, classifyLazyErr(nerr))
				break
			}
			payloads := allPayloads(hd.input, tag)
			hs, cs, flags := make([]string, len(nrs)), make([]string, len(nrs)), make([]string, len(nrs))
			for i, nr := range nrs {
				hs[i] = fmt.Sprint(nextH)
				var in []byte
				if i < len(payloads) {
					in = payloads[i]
				}
				if nr == nil {
					cs[i], flags[i] = "new:999999", "0"
					handles[nextH] = &lzHandle{res: nil, def: hd.def.nestedFor(tag), root: hd.root, nested: true}
				} else {
					cs[i], flags[i] = choiceFor(nr), "1"
					handles[nextH] = &lzHandle{res: nr, input: in, def: hd.def.nestedFor(tag), root: hd.root, nested: true}
				}
				nextH++
			}
			req = append(req, fmt.Sprintf("nesteds %d %d %s %s", h, tag, dashJoin(hs), dashJoin(cs)))
			rep = append(rep, "many:"+dashJoin(flags))
		case x < 86: // Range
			h := any[r.Intn(len(any))]
			hd := handles[h]
			var parts []string
			lastClosed = -1
			if run(func() {
				hd.res.Range(func(tag int, fd *lazyproto.FieldData) bool {
					parts = append(parts, fmt.Sprintf("%d=%s", tag, bl(fd != nil)))
					return true
				})
			}) {
				req = append(req, fmt.Sprintf("range %d", h))
				rep = append(rep, "panic")
				violate("pool/range-panic", "Range panicked", "", "panic")
				break
			}
			req = append(req, fmt.Sprintf("range %d", h))
			rep = append(rep, "tags:"+dashJoin(parts))
		case x < 90 && lastClosed >= 0: // Close again, immediately
			h := lastClosed
			if run(func() { handles[h].res.Close() }) {
				violate("pool/close-panic", "repeated Close panicked", "", "panic")
			}
			req = append(req, fmt.Sprintf("close %d", h))
			rep = append(rep, "ok")
		default: // Close: a root (releases its nested results) or a nested handle (a no-op)
			if len(any) == 0 {
				break
			}
			h := any[r.Intn(len(any))]
			if len(roots) > 0 && r.Chance(3, 4) {
				h = roots[r.Intn(len(roots))]
			}
			hd := handles[h]
			if run(func() { hd.res.Close() }) {
				req = append(req, fmt.Sprintf("close %d", h))
				rep = append(rep, "panic")
				violate("pool/close-panic", "Close panicked", "", "panic")
				break
			}
			req = append(req, fmt.Sprintf("close %d", h))
			rep = append(rep, "ok")
			if !hd.nested {
				for _, o := range handles {
					if o.root == h {
						o.dead = true
					}
				}
				lastClosed = h
			}
		}
	}
	// safe mode: everything handed out must be intact after all the closes and later decodes
	for _, h := range roots(handles) {
		if run(func() { h.res.Close() }) {
			req = append(req, "close <remaining root>")
			violate("pool/close-panic", "Close panicked", "", "panic")
		}
	}
	for i := 0; i < 3; i++ {
		if run(func() {
			for _, in := range inputs {
				if res, err := dec.Decode(in); err == nil && res != nil {
					res.Close()
				}
			}
		}) {
			req = append(req, "decode+close <after the history>")
			violate("pool/close-panic", "Decode/Close panicked after the history", "", "panic")
		}
	}
	for _, hv := range held {
		if hv.typed != nil && fmt.Sprint(hv.typed) != hv.typedSnap {
			violate("pool/safe-mode-survival", "a typed slice handed out in safe mode changed after Close / later decodes: "+hv.what, hv.typedSnap, fmt.Sprint(hv.typed))
		}
		for i := range hv.live {
			if !bytes.Equal(hv.live[i], hv.snap[i]) {
				violate("pool/safe-mode-survival", "a value handed out in safe mode changed after Close / later decodes: "+hv.what, hexs(hv.snap[i]), hexs(hv.live[i]))
			}
		}
	}
	c.Model("histories", strings.Join(req, " ; "), strings.Join(rep, " ; "))
	outcome := "ok"
	if violated {
		outcome = "violation"
	}
	c.Count("histories", strings.Join(req, " ; "), outcome, len(req), reused > 0)
	c.Extra["pool_decodes"] = intOf(c.Extra["pool_decodes"]) + decoded
	c.Extra["pool_reuses_observed"] = intOf(c.Extra["pool_reuses_observed"]) + reused
	c.Extra["values_held_across_close"] = intOf(c.Extra["values_held_across_close"]) + len(held)
	if r.Intn(40) == 0 {
		c.Sample(map[string]interface{}{"stream": "histories", "decoder": desc, "history": trunc(strings.Join(req[1:], " ; "), 400)})
	}
}

// nestedCorruptInput appends to base two occurrences of a tag declared as nested: a good one and one whose
// payload ends in the middle of a varint.
func nestedCorruptInput(r *prng.Rng, def *lzDef, fs []*lzField, base []byte) ([]byte, bool) {
	var cands []lzDefEntry
	for _, e := range def.entries {
		if e.sub != nil && e.key > 0 {
			cands = append(cands, e)
		}
	}
	if len(cands) == 0 {
		return nil, false
	}
	e := cands[r.Intn(len(cands))]
	// the tag must not occur in base with another wire type (a field number uses one wire type throughout)
	recs, ok := refParse(base)
	if !ok {
		return nil, false
	}
	for _, rc := range recs {
		if int(rc.num) == e.key && rc.typ != protowire.BytesType {
			return nil, false
		}
	}
	good := []byte{0x08, 0x01}
	for _, f := range fs {
		if f.tag == e.key && f.kind == lzMsg {
			for _, sf := range f.sub {
				if sf.count == 0 {
					sf.count = 1
				}
			}
			good = encodeLz(r, f.sub)
		}
	}
	out := append([]byte{}, base...)
	for k := 1 + r.Intn(2); k > 0; k-- {
		out = protowire.AppendTag(out, protowire.Number(e.key), protowire.BytesType)
		out = protowire.AppendBytes(out, good)
	}
	out = protowire.AppendTag(out, protowire.Number(e.key), protowire.BytesType)
	out = protowire.AppendBytes(out, []byte{0x08, 0x80})
	return out, true
}

func roots(hs map[int]*lzHandle) []*lzHandle {
	var out []*lzHandle
	for _, h := range hs {
		if !h.nested && !h.dead && h.res != nil {
			out = append(out, h)
		}
	}
	return out
}

func intOf(v interface{}) int {
	if i, ok := v.(int); ok {
		return i
	}
	return 0
}

func dashJoin(ss []string) string {
	if len(ss) == 0 {
		return "-"
	}
	return strings.Join(ss, ",")
}

var _ = prng.New

// survivalScript: the directed scenario behind the safe-mode clause — take every kind of value out of
// a root result and out of a nested result, close, let the pooled objects be recycled by further decodes
// that call the same accessors, and look at the values taken out before.
func survivalScript(c *fw.Ctx) {
	r := c.Rng
	mk := func() (nums []uint64, strs [][]byte) {
		for i := 1 + r.Intn(4); i > 0; i-- {
			nums = append(nums, r.U64Interesting()>>uint(r.Intn(40)))
		}
		for i := 1 + r.Intn(3); i > 0; i-- {
			strs = append(strs, asciiBytes(r, 1+r.Intn(6)))
		}
		return
	}
	inner := func(nums []uint64, strs [][]byte) []byte {
		var b []byte
		for _, n := range nums {
			b = protowire.AppendTag(b, 1, protowire.VarintType)
			b = protowire.AppendVarint(b, n)
		}
		for _, s := range strs {
			b = protowire.AppendTag(b, 2, protowire.BytesType)
			b = protowire.AppendBytes(b, s)
		}
		return b
	}
	outer := func() []byte {
		n, s := mk()
		in := inner(n, s)
		b := append([]byte{}, in...) // the same two fields at the root
		b = protowire.AppendTag(b, 3, protowire.BytesType)
		return protowire.AppendBytes(b, in)
	}
	def := lazyproto.NewDef(1, 2)
	def.NestedTag(3, 1, 2)
	opt := genOptCombo(r)
	opt.fast = false
	dec, err := lazyproto.NewDecoder(def, opt.options()...)
	if err != nil {
		return
	}
	type heldT struct {
		what string
		live interface{}
		snap string
	}
	var held []heldT
	take := func(res *lazyproto.DecodeResult, where string) {
		if fd, err := res.FieldData(1); err == nil {
			if v, err := fd.Int64Values(); err == nil {
				held = append(held, heldT{where + " Int64Values(1)", v, fmt.Sprint(v)})
			}
			if v, err := fd.UInt64Values(); err == nil {
				held = append(held, heldT{where + " UInt64Values(1)", v, fmt.Sprint(v)})
			}
			if v, err := fd.BoolValues(); err == nil {
				held = append(held, heldT{where + " BoolValues(1)", v, fmt.Sprint(v)})
			}
		}
		if fd, err := res.FieldData(2); err == nil {
			if v, err := fd.StringValues(); err == nil {
				held = append(held, heldT{where + " StringValues(2)", v, fmt.Sprint(v)})
			}
			if v, err := fd.BytesValues(); err == nil {
				held = append(held, heldT{where + " BytesValues(2)", v, fmt.Sprint(v)})
			}
			if v, err := fd.BytesValue(); err == nil {
				held = append(held, heldT{where + " BytesValue(2)", v, fmt.Sprint(v)})
			}
		}
	}
	outcome := "ok"
	if p := safely(func() {
		for round := 0; round < 3; round++ {
			res, err := dec.Decode(outer())
			if err != nil || res == nil {
				return
			}
			take(res, fmt.Sprintf("root result of decode %d", round))
			if nr, err := res.NestedResult(3); err == nil && nr != nil {
				take(nr, fmt.Sprintf("nested result of decode %d", round))
			}
			res.Close()
		}
	}); p != "" {
		outcome = "panic"
		c.Violate(fw.Violation{Stream: "survival", Signature: "pool/survival-panic", What: "the decode/access/close script panicked", Got: p})
	}
	for _, h := range held {
		if fmt.Sprint(h.live) != h.snap {
			outcome = "changed"
			c.Violate(fw.Violation{Stream: "survival", Signature: "pool/safe-mode-survival", What: "a value handed out in safe mode changed after Close / later decodes: " + h.what, Expected: h.snap, Got: fmt.Sprint(h.live)})
			break
		}
	}
	c.Count("survival", fmt.Sprint(len(held), held), outcome, len(held), len(held) > 0)
}

func runC14(c *fw.Ctx) int {
	c.Facts = extractFacts(c)
	c.Prove("C14")
	// make reuse through sync.Pool near-certain: one P, no GC while histories run
	oldProcs := runtime.GOMAXPROCS(1)
	oldGC := debug.SetGCPercent(-1)
	n := 1000
	if c.Tier == "thorough" {
		n = 20000
	}
	for i := 0; i < n; i++ {
		poolHistory(c, 12+c.Rng.Intn(30))
		if i%200 == 199 {
			c.FlushModel()
			debug.SetGCPercent(oldGC)
			runtime.GC()
			debug.SetGCPercent(-1)
		}
	}
	rounds := 200
	if c.Tier == "thorough" {
		rounds = 5000
	}
	for i := 0; i < rounds; i++ {
		survivalScript(c)
	}
	debug.SetGCPercent(oldGC)
	runtime.GOMAXPROCS(oldProcs)
	if c.Tier == "thorough" {
		c.LeanChecker("C14")
	}
	return c.Finish(
		"histories: one Decoder per history (random definition with nested definitions; options mode {safe, fast} x max buffer {none, 0, 1, 2, 64} x filter {none, shrink to 1, halve, always negative = leave alone, zero, huge, negative for small capacities else 2, answers cycling through -1 / 0 / 3 / -7} - every combination, i.e. also a filter without a max buffer size); 12-41 operations drawn from Decode (over a pool of 4-6 inputs of the same schema with 0-5 occurrences per tag, sometimes the empty message), single-tag accessors (26), NestedResult, NestedResults, Range, Close of a root, Close of a nested handle, immediately repeated Close; object identities (pointer equality) are passed to the model as the pool's choices; every accessor answer is compared with the model and with a reference parse of that handle's own input; byte slices handed out in safe mode are re-checked after all closes and further decodes; GOMAXPROCS=1 and GC off so recycling is near-certain; non-trivial = distinct history in which at least one object was observed being reused",
		append(trustedCommon, "sync.Pool assumed to hand an object to at most one getter until it is put back, returning either a previously put object or a new one"),
		[]string{"client well-formedness: a handle (and the nested handles obtained from it) is not used after its root's Close, except that Close may be repeated immediately",
			"capacities, max-buffer / filter trimming and fast-mode scratch slices are unobservable in values and absent from the model; the option combinations are exercised to validate exactly that"})
}
