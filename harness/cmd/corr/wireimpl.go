package main

// Execution of encoder / decoder programs on the real csproto Encoder / Decoder (in-process, every
// call under recover), producing replies in the line protocol's canonical form.

import (
	"fmt"
	"math"
	"strconv"
	"strings"

	"github.com/CrowdStrike/csproto"

	"csverif/internal/fw"
)

// ---------- decoder programs ----------

type decOp struct {
	name string // protocol name
	a, b int64  // arguments (skip: tag, wt; seek: offset, whence; mode: 0/1; nested: 1=ok)
}

func (o decOp) String() string {
	switch o.name {
	case "skip":
		return fmt.Sprintf("skip %d %d", uint64(o.a), uint64(o.b))
	case "seek":
		return fmt.Sprintf("seek %d %d", o.a, o.b)
	case "mode", "nested":
		return fmt.Sprintf("%s %d", o.name, o.a)
	}
	return o.name
}

type nestedDouble struct {
	ok      bool
	invoked bool
	got     []byte
}

func (n *nestedDouble) Unmarshal(b []byte) error {
	n.invoked = true
	n.got = append([]byte{}, b...)
	if !n.ok {
		return fmt.Errorf("nested unmarshal failed")
	}
	return nil
}

func joinU[T any](xs []T, f func(T) string) string {
	if len(xs) == 0 {
		return "-"
	}
	ss := make([]string, len(xs))
	for i, x := range xs {
		ss[i] = f(x)
	}
	return strings.Join(ss, ",")
}

func u64s(v uint64) string { return strconv.FormatUint(v, 10) }
func i64s(v int64) string  { return strconv.FormatInt(v, 10) }

type decResult struct {
	reply    string // ok:<item>:<off> | err | errn:<hex> | panic
	ok       bool
	panicked bool
	panicMsg string
	capCells int // capacity of a returned slice (allocation observed)
	item     string
	// rer renders the value the call handed out once more, from the very slice / string the caller holds:
	// a result must not change when the same decoder is used again (nil for values passed by value)
	rer func() string
}

// decCall runs one decoder method under recover.
func decCall(d *csproto.Decoder, op decOp) (res decResult) {
	defer func() {
		if r := recover(); r != nil {
			res = decResult{reply: "panic", panicked: true, panicMsg: fmt.Sprint(r)}
		}
	}()
	var item string
	var err error
	var rer func() string
	capCells := 0
	switch op.name {
	case "tag":
		var t int
		var wt csproto.WireType
		t, wt, err = d.DecodeTag()
		item = fmt.Sprintf("t%d/%d", t, int(wt))
	case "bool":
		var v bool
		v, err = d.DecodeBool()
		item = "b0"
		if v {
			item = "b1"
		}
	case "string":
		var v string
		v, err = d.DecodeString()
		rer = func() string { return "x" + fw.Hex([]byte(v)) }
		item = rer()
	case "bytes":
		var v []byte
		v, err = d.DecodeBytes()
		rer = func() string { return "x" + fw.Hex(v) }
		item = rer()
	case "uint32":
		var v uint32
		v, err = d.DecodeUInt32()
		item = "n" + u64s(uint64(v))
	case "uint64":
		var v uint64
		v, err = d.DecodeUInt64()
		item = "n" + u64s(v)
	case "int32":
		var v int32
		v, err = d.DecodeInt32()
		item = "i" + i64s(int64(v))
	case "int64":
		var v int64
		v, err = d.DecodeInt64()
		item = "i" + i64s(v)
	case "sint32":
		var v int32
		v, err = d.DecodeSInt32()
		item = "i" + i64s(int64(v))
	case "sint64":
		var v int64
		v, err = d.DecodeSInt64()
		item = "i" + i64s(v)
	case "fixed32":
		var v uint32
		v, err = d.DecodeFixed32()
		item = "n" + u64s(uint64(v))
	case "fixed64":
		var v uint64
		v, err = d.DecodeFixed64()
		item = "n" + u64s(v)
	case "float32":
		var v float32
		v, err = d.DecodeFloat32()
		item = "n" + u64s(uint64(math.Float32bits(v)))
	case "float64":
		var v float64
		v, err = d.DecodeFloat64()
		item = "n" + u64s(math.Float64bits(v))
	case "pbool":
		var v []bool
		v, err = d.DecodePackedBool()
		capCells = cap(v)
		rer = func() string {
			return "B" + joinU(v, func(b bool) string {
				if b {
					return "1"
				}
				return "0"
			})
		}
		item = rer()
	case "pint32":
		var v []int32
		v, err = d.DecodePackedInt32()
		capCells = cap(v)
		rer = func() string { return "I" + joinU(v, func(x int32) string { return i64s(int64(x)) }) }
		item = rer()
	case "pint64":
		var v []int64
		v, err = d.DecodePackedInt64()
		capCells = cap(v)
		rer = func() string { return "I" + joinU(v, func(x int64) string { return i64s(x) }) }
		item = rer()
	case "puint32":
		var v []uint32
		v, err = d.DecodePackedUint32()
		capCells = cap(v)
		rer = func() string { return "N" + joinU(v, func(x uint32) string { return u64s(uint64(x)) }) }
		item = rer()
	case "puint64":
		var v []uint64
		v, err = d.DecodePackedUint64()
		capCells = cap(v)
		rer = func() string { return "N" + joinU(v, func(x uint64) string { return u64s(x) }) }
		item = rer()
	case "psint32":
		var v []int32
		v, err = d.DecodePackedSint32()
		capCells = cap(v)
		rer = func() string { return "I" + joinU(v, func(x int32) string { return i64s(int64(x)) }) }
		item = rer()
	case "psint64":
		var v []int64
		v, err = d.DecodePackedSint64()
		capCells = cap(v)
		rer = func() string { return "I" + joinU(v, func(x int64) string { return i64s(x) }) }
		item = rer()
	case "pfixed32":
		var v []uint32
		v, err = d.DecodePackedFixed32()
		capCells = cap(v)
		rer = func() string { return "N" + joinU(v, func(x uint32) string { return u64s(uint64(x)) }) }
		item = rer()
	case "pfixed64":
		var v []uint64
		v, err = d.DecodePackedFixed64()
		capCells = cap(v)
		rer = func() string { return "N" + joinU(v, func(x uint64) string { return u64s(x) }) }
		item = rer()
	case "pfloat32":
		var v []float32
		v, err = d.DecodePackedFloat32()
		capCells = cap(v)
		rer = func() string {
			return "N" + joinU(v, func(x float32) string { return u64s(uint64(math.Float32bits(x))) })
		}
		item = rer()
	case "pfloat64":
		var v []float64
		v, err = d.DecodePackedFloat64()
		capCells = cap(v)
		rer = func() string { return "N" + joinU(v, func(x float64) string { return u64s(math.Float64bits(x)) }) }
		item = rer()
	case "nested":
		nd := &nestedDouble{ok: op.a == 1}
		err = d.DecodeNested(nd)
		if err != nil && nd.invoked {
			return decResult{reply: "errn:" + fw.Hex(nd.got)}
		}
		if err == nil && !nd.invoked {
			return decResult{reply: "ok-not-invoked"}
		}
		item = "x" + fw.Hex(nd.got)
	case "skip":
		var v []byte
		v, err = d.Skip(int(op.a), csproto.WireType(op.b))
		rer = func() string { return "x" + fw.Hex(v) }
		item = rer()
	case "seek":
		var pos int64
		pos, err = d.Seek(op.a, int(op.b))
		item = "i" + i64s(pos)
	case "reset":
		d.Reset()
		item = "u"
	case "mode":
		if op.a == 1 {
			d.SetMode(csproto.DecoderModeFast)
		} else {
			d.SetMode(csproto.DecoderModeSafe)
		}
		item = "u"
	case "more":
		item = "b0"
		if d.More() {
			item = "b1"
		}
	case "offset":
		item = "n" + strconv.Itoa(d.Offset())
	default:
		panic("harness: unknown decoder op " + op.name)
	}
	if err != nil {
		return decResult{reply: "err"}
	}
	return decResult{reply: fmt.Sprintf("ok:%s:%d", item, d.Offset()), ok: true, capCells: capCells, item: item, rer: rer}
}

// runDecProgram executes ops on the implementation and returns the request line for the model
// (with `resync` inserted after every failed call), the implementation's reply line and the
// per-op results.
func runDecProgram(fast bool, data []byte, ops []decOp) (req, reply string, results []decResult, offsets []int) {
	d := csproto.NewDecoder(data)
	mode := "safe"
	if fast {
		d.SetMode(csproto.DecoderModeFast)
		mode = "fast"
	}
	var rq, rp []string
	rq = append(rq, fmt.Sprintf("D %s %s", mode, fw.Hex(data)))
	for _, op := range ops {
		r := decCall(d, op)
		results = append(results, r)
		offsets = append(offsets, d.Offset())
		rq = append(rq, op.String())
		rp = append(rp, r.reply)
		if !r.ok {
			off := d.Offset()
			if off >= 0 && off <= len(data) {
				rq = append(rq, fmt.Sprintf("resync %d", off))
				rp = append(rp, fmt.Sprintf("ok:u:%d", off))
			}
		}
		if r.panicked {
			break
		}
	}
	// every value handed out earlier must still read the same after the later calls on this decoder
	for i, r := range results {
		if r.ok && r.rer != nil {
			if now := r.rer(); now != r.item {
				heldChanged = append(heldChanged, fmt.Sprintf("result of call %d (%s) was %s when returned and reads %s after the later calls [%s on %s]",
					i, ops[i].name, trunc(r.item, 120), trunc(now, 120), mode, trunc(fw.Hex(data), 200)))
			}
		}
	}
	return strings.Join(rq, " ; "), strings.Join(rp, " ; "), results, offsets
}

// heldChanged collects results that changed after they were handed out; reportHeld turns them into violations.
var heldChanged []string

func reportHeld(c *fw.Ctx, stream string) {
	for _, h := range heldChanged {
		c.Violate(fw.Violation{Stream: stream, Signature: "decode/held-result-changed",
			What: "a value returned by an earlier decoder call changed when the same Decoder was used again", Input: h, Expected: "unchanged", Got: "changed"})
	}
	heldChanged = nil
}

// stripAlloc drops the model's allocation-request field (`ok:item:off:alloc` → `ok:item:off`),
// which the implementation cannot report.
func stripAlloc(model string) string {
	parts := strings.Split(model, " ; ")
	for i, p := range parts {
		if strings.HasPrefix(p, "ok:") {
			if j := strings.LastIndex(p, ":"); j > 0 {
				parts[i] = p[:j]
			}
		}
	}
	// a model panic ends the reply like the implementation's
	return strings.Join(parts, " ; ")
}

// ---------- encoder programs ----------

type encOp struct {
	name string
	tag  int
	u    uint64   // scalar payload (already converted bits)
	i    int64    // signed payload for zig-zag
	b    []byte   // bytes / raw / nested body
	us   []uint64 // packed
	is   []int64
	bs   []bool
	fail bool // nested: the nested marshal fails
	// how the implementation is called
	call func(e *csproto.Encoder) error
}

func (o encOp) String() string {
	switch o.name {
	case "bool", "varint", "f32", "f64":
		return fmt.Sprintf("%s %d %d", o.name, o.tag, o.u)
	case "zz32", "zz64":
		return fmt.Sprintf("%s %d %d", o.name, o.tag, o.i)
	case "bytes":
		return fmt.Sprintf("bytes %d %s", o.tag, fw.Hex(o.b))
	case "pbool":
		return fmt.Sprintf("pbool %d %s", o.tag, joinU(o.bs, func(b bool) string {
			if b {
				return "1"
			}
			return "0"
		}))
	case "pvarint", "pf32", "pf64":
		return fmt.Sprintf("%s %d %s", o.name, o.tag, joinU(o.us, u64s))
	case "pzz32", "pzz64":
		return fmt.Sprintf("%s %d %s", o.name, o.tag, joinU(o.is, i64s))
	case "raw":
		return "raw " + fw.Hex(o.b)
	case "maphdr":
		return fmt.Sprintf("maphdr %d %d", o.tag, o.u)
	case "nested":
		body := fw.Hex(o.b)
		if o.fail {
			body = "fail"
		}
		return fmt.Sprintf("nested %d %d %d %s", o.tag, o.u, o.i, body)
	}
	panic("harness: unknown encoder op " + o.name)
}

// encFill cycles through the contents the caller's buffer holds before the encoder writes into it:
// callers reuse buffers, so every byte the encoder claims must actually be written.
var encFills = []byte{0x00, 0xAA, 0xFF}
var encFillN int

// runEncProgram executes ops on a buffer of the given capacity, pre-filled with one of encFills.
func runEncProgram(capacity int, ops []encOp) (req, reply string, panicked bool, buf []byte, off int) {
	fill := encFills[encFillN%len(encFills)]
	encFillN++
	buf = make([]byte, capacity)
	for i := range buf {
		buf[i] = fill
	}
	e := csproto.NewEncoder(buf)
	rq := []string{fmt.Sprintf("E %d %d", capacity, fill)}
	var sts []string
	for _, op := range ops {
		rq = append(rq, op.String())
		st := func() (st string) {
			defer func() {
				if r := recover(); r != nil {
					st = "panic"
				}
			}()
			if err := op.call(e); err != nil {
				return "err"
			}
			return "ok"
		}()
		sts = append(sts, st)
		if st == "panic" {
			return strings.Join(rq, " ; "), strings.Join(sts, ","), true, buf, e.VerifOffset()
		}
	}
	off = e.VerifOffset()
	return strings.Join(rq, " ; "), fmt.Sprintf("%s %s %d", strings.Join(sts, ","), fw.Hex(buf), off), false, buf, off
}
