// corr: one sub-command per property. It (1) regenerates the facts the Lean development imports
// from /repo's source, (2) re-checks the property's theorems and audits their axioms, (3) runs the
// correspondence streams (model vs implementation) and the property oracle on the implementation,
// (4) decides the verdict and writes the evidence.
package main

import (
	"flag"
	"fmt"
	"os"
	"strconv"

	"csverif/internal/fw"
)

type propFn func(c *fw.Ctx) int

var props = map[string]propFn{}

func main() {
	// the sandbox is offline: child go commands must never try the network or another toolchain
	for k, v := range map[string]string{"GOFLAGS": "-mod=mod", "GOPROXY": "off", "GOSUMDB": "off", "GOTOOLCHAIN": "local"} {
		if os.Getenv(k) == "" {
			os.Setenv(k, v)
		}
	}
	if len(os.Args) < 2 {
		fmt.Println("usage: corr <Cxx> [--tier quick|thorough] [--no-lean]")
		os.Exit(2)
	}
	prop := os.Args[1]
	fs := flag.NewFlagSet("corr", flag.ExitOnError)
	tier := fs.String("tier", "", "quick|thorough")
	noLean := fs.Bool("no-lean", false, "skip the Lean build (development only; never used by registered commands)")
	fs.Parse(os.Args[2:])
	if *tier == "" {
		*tier = os.Getenv("VERIF_TIER")
	}
	if *tier != "thorough" {
		*tier = "quick"
	}
	seed := uint64(1)
	if s := os.Getenv("VERIF_SEED"); s != "" {
		if v, err := strconv.ParseUint(s, 10, 64); err == nil {
			seed = v
		} else if v, err := strconv.ParseInt(s, 10, 64); err == nil {
			seed = uint64(v)
		}
	}
	f, ok := props[prop]
	if !ok {
		fmt.Printf("unknown property %s\n", prop)
		os.Exit(2)
	}
	c := fw.NewCtx(prop, *tier, seed)
	c.NoLean = *noLean
	os.Exit(f(c))
}
