package main

import (
	"bytes"
	"encoding/hex"
	"fmt"

	"github.com/CrowdStrike/csproto"

	"csverif/internal/fw"
)

func hexs(b []byte) string { return fw.Hex(b) }

func init() { props["C01"] = runC01 }

var trustedCommon = []string{
	"Lean 4.33.0 kernel; axioms allowed: propext, Classical.choice, Quot.sound (per-theorem list in axioms_by_theorem)",
	"fact extractor harness/cmd/extract (go/ast, go/types) -> lean/Csproto/Generated/*.lean",
	"correspondence harness (harness/cmd/corr): generators, canonicalisation, line protocol, compiled model lean/.lake/build/bin/csmodel",
	"Go language semantics as modelled (slice bounds -> panic, copy truncation, integer conversions)",
}

// primitives: free functions of the wire layer vs the model.
func streamWirePrimitives(c *fw.Ctx, n int) {
	r := c.Rng.Fork()
	for i := 0; i < n; i++ {
		v := r.U64Interesting()
		buf := bytes.Repeat([]byte{0xA5}, 10+r.Intn(4))
		k := csproto.EncodeVarint(buf, v)
		enc := buf[:k]
		if !bytes.Equal(buf[k:], bytes.Repeat([]byte{0xA5}, len(buf)-k)) {
			c.Violate(fw.Violation{Stream: "wire", Signature: "EncodeVarint/overrun", What: "EncodeVarint wrote beyond the bytes it reports as written",
				Input: v, Expected: fmt.Sprintf("%d bytes written, the rest of the destination untouched", k), Got: hexs(buf)})
		}
		buf = append(buf[:0:0], buf[:10]...)
		c.Model("wire", fmt.Sprintf("W ev %d", v), hexs(enc))
		c.Model("wire", fmt.Sprintf("W szv %d", v), fmt.Sprint(csproto.SizeOfVarint(v)))
		c.Model("wire", fmt.Sprintf("W szz %d", int64(v)), fmt.Sprint(csproto.SizeOfZigZag(v)))
		c.Count("wire", fmt.Sprintf("v%d", v), "ok", k, v >= 128)
		if csproto.SizeOfVarint(v) != k {
			c.Violate(fw.Violation{Stream: "wire", Signature: "SizeOfVarint/length", What: "SizeOfVarint differs from bytes written by EncodeVarint",
				Input: v, Expected: fmt.Sprint(k), Got: fmt.Sprint(csproto.SizeOfVarint(v))})
		}
		// decode the encoding followed by random junk
		in := append(append([]byte{}, enc...), r.Bytes(r.Intn(3))...)
		dv, dn, err := csproto.DecodeVarint(in)
		impl := "err"
		if err == nil {
			impl = fmt.Sprintf("ok %d %d", dv, dn)
		}
		c.Model("wire", "W dv "+hexs(in), impl)
		if err != nil || dv != v || dn != k {
			c.Violate(fw.Violation{Stream: "wire", Signature: "DecodeVarint/roundtrip", What: "DecodeVarint(EncodeVarint(v)) != v",
				Input: v, Expected: fmt.Sprintf("ok %d %d", v, k), Got: impl})
		}
		// zig-zag 32 / 64
		z64 := int64(v)
		k = csproto.EncodeZigZag64(buf, z64)
		c.Model("wire", fmt.Sprintf("W zz64 %d", z64), hexs(buf[:k]))
		if csproto.SizeOfZigZag(v) != k {
			c.Violate(fw.Violation{Stream: "wire", Signature: "SizeOfZigZag/length", What: "SizeOfZigZag differs from bytes written by EncodeZigZag64",
				Input: z64, Expected: fmt.Sprint(k), Got: fmt.Sprint(csproto.SizeOfZigZag(v))})
		}
		in = append(append([]byte{}, buf[:k]...), r.Bytes(r.Intn(3))...)
		z, zn, err := csproto.DecodeZigZag64(in)
		impl = "err"
		if err == nil {
			impl = fmt.Sprintf("ok %d %d", z, zn)
		}
		c.Model("wire", "W dzz64 "+hexs(in), impl)
		if err != nil || z != z64 || zn != k {
			c.Violate(fw.Violation{Stream: "wire", Signature: "ZigZag64/roundtrip", What: "DecodeZigZag64(EncodeZigZag64(v)) != v", Input: z64, Expected: fmt.Sprint(z64), Got: impl})
		}
		z32 := int32(uint32(v))
		k = csproto.EncodeZigZag32(buf, z32)
		c.Model("wire", fmt.Sprintf("W zz32 %d", z32), hexs(buf[:k]))
		if csproto.SizeOfZigZag(uint64(z32)) != k {
			c.Violate(fw.Violation{Stream: "wire", Signature: "SizeOfZigZag/length32", What: "SizeOfZigZag(uint64(int32)) differs from bytes written by EncodeZigZag32",
				Input: z32, Expected: fmt.Sprint(k), Got: fmt.Sprint(csproto.SizeOfZigZag(uint64(z32)))})
		}
		in = append(append([]byte{}, buf[:k]...), r.Bytes(r.Intn(3))...)
		y, yn, err := csproto.DecodeZigZag32(in)
		impl = "err"
		if err == nil {
			impl = fmt.Sprintf("ok %d %d", y, yn)
		}
		c.Model("wire", "W dzz32 "+hexs(in), impl)
		if err != nil || y != z32 || yn != k {
			c.Violate(fw.Violation{Stream: "wire", Signature: "ZigZag32/roundtrip", What: "DecodeZigZag32(EncodeZigZag32(v)) != v", Input: z32, Expected: fmt.Sprint(z32), Got: impl})
		}
		// keys
		tag := genTag(r)
		wt := []int{0, 1, 2, 5}[r.Intn(4)]
		k = csproto.EncodeTag(buf, tag, csproto.WireType(wt))
		c.Model("wire", fmt.Sprintf("W key %d %d", tag, wt), hexs(buf[:k]))
		c.Model("wire", fmt.Sprintf("W szk %d", tag), fmt.Sprint(csproto.SizeOfTagKey(tag)))
		if csproto.SizeOfTagKey(tag) != k {
			c.Violate(fw.Violation{Stream: "wire", Signature: "SizeOfTagKey/length", What: "SizeOfTagKey differs from bytes written by EncodeTag",
				Input: tag, Expected: fmt.Sprint(k), Got: fmt.Sprint(csproto.SizeOfTagKey(tag))})
		}
		// fixed
		k = csproto.EncodeFixed64(buf, v)
		c.Model("wire", fmt.Sprintf("W f64 %d", v), hexs(buf[:k]))
		fv, fn, err := csproto.DecodeFixed64(buf[:k])
		if err != nil || fv != v || fn != 8 {
			c.Violate(fw.Violation{Stream: "wire", Signature: "Fixed64/roundtrip", What: "DecodeFixed64(EncodeFixed64(v)) != v", Input: v})
		}
		k = csproto.EncodeFixed32(buf, uint32(v))
		c.Model("wire", fmt.Sprintf("W f32 %d", uint32(v)), hexs(buf[:k]))
		// arbitrary bytes through the varint / fixed readers
		junk := r.Bytes(r.Intn(12))
		if r.Chance(1, 2) {
			for j := range junk {
				junk[j] |= 0x80
			}
			if len(junk) > 0 && r.Chance(1, 2) {
				junk[len(junk)-1] &= 0x7f
			}
		}
		dv, dn, err = csproto.DecodeVarint(junk)
		impl = "err"
		if err == nil {
			impl = fmt.Sprintf("ok %d %d", dv, dn)
		}
		c.Model("wire", "W dv "+hexs(junk), impl)
		f32, n32, err := csproto.DecodeFixed32(junk)
		impl = "err"
		if err == nil {
			impl = fmt.Sprintf("ok %d %d", f32, n32)
		}
		c.Model("wire", "W df32 "+hexs(junk), impl)
		f64, n64, err := csproto.DecodeFixed64(junk)
		impl = "err"
		if err == nil {
			impl = fmt.Sprintf("ok %d %d", f64, n64)
		}
		c.Model("wire", "W df64 "+hexs(junk), impl)
	}
}

// roundTripField writes one field of kind k into a buffer of exactly the predicted size and reads
// it back; the implementation is checked against the property directly (oracle) and against the model.
func roundTripField(c *fw.Ctx, stream string, k kind, tag int, v wval, fast bool) {
	op := k.enc(tag, v)
	payload := k.size(v)
	predicted := 0
	if payload >= 0 {
		predicted = csproto.SizeOfTagKey(tag) + payload
	}
	desc := fmt.Sprintf("%s tag=%d fast=%v %s", k.name, tag, fast, op.String())
	c.Journal("C01 " + desc)
	// mostly a buffer of exactly the predicted size; sometimes a few bytes more (a caller's trailer, the next
	// record of a batch): those bytes are not the encoder's to write
	slack := 0
	if c.Rng.Chance(1, 4) {
		slack = 1 + c.Rng.Intn(6)
	}
	req, reply, panicked, buf, off := runEncProgram(predicted+slack, []encOp{op})
	c.Model(stream, req, reply)
	if !panicked && off == predicted && slack > 0 {
		for _, x := range buf[predicted:] {
			if x != buf[len(buf)-1] || (x != 0x00 && x != 0xAA && x != 0xFF) {
				c.Violate(fw.Violation{Stream: stream, Signature: "encode/" + k.name + "/overrun", What: "the encoder wrote beyond the bytes the size helpers predicted (bytes after the field were modified)",
					Input: desc, Expected: fmt.Sprintf("%d bytes written, %d bytes of slack untouched", predicted, slack), Got: trunc(hexs(buf), 300)})
				break
			}
		}
	}
	buf = buf[:len(buf)-slack]
	nontrivial := predicted > 2
	outcome := "ok"
	if panicked {
		outcome = "enc-panic"
		c.Violate(fw.Violation{Stream: stream, Signature: "encode/" + k.name + "/panic-on-exact-buffer",
			What: "encoding into a buffer sized from the size helpers panicked", Input: desc, Expected: "no panic", Got: "panic"})
	} else if off != predicted {
		outcome = "size-mismatch"
		c.Violate(fw.Violation{Stream: stream, Signature: "encode/" + k.name + "/size",
			What: "bytes written differ from the size predicted by the size helpers", Input: desc,
			Expected: fmt.Sprint(predicted), Got: fmt.Sprint(off)})
	} else if predicted > 0 {
		// read back, followed by junk so that over-reads show
		in := append(append([]byte{}, buf...), c.Rng.Bytes(c.Rng.Intn(4))...)
		ops := []decOp{{name: "tag"}, {name: k.decOp}}
		rq, rp, results, offsets := runDecProgram(fast, in, ops)
		c.ModelCmp(stream, rq, rp, stripAlloc)
		reportHeld(c, stream)
		wantTag := fmt.Sprintf("t%d/%d", tag, k.wt)
		switch {
		case len(results) < 2 || !results[0].ok || results[0].item != wantTag:
			outcome = "tag-mismatch"
			c.Violate(fw.Violation{Stream: stream, Signature: "decode/tag/" + tagClass(tag), What: "DecodeTag did not return the key written",
				Input: desc, Expected: wantTag, Got: rp})
		case !results[1].ok || results[1].item != k.item(v):
			outcome = "value-mismatch"
			c.Violate(fw.Violation{Stream: stream, Signature: "decode/" + k.name + "/value", What: "decoder did not return the value written",
				Input: desc, Expected: trunc(k.item(v), 200), Got: trunc(rp, 200)})
		case offsets[1] != predicted:
			outcome = "consumed-mismatch"
			c.Violate(fw.Violation{Stream: stream, Signature: "decode/" + k.name + "/consumed", What: "decoder did not consume exactly the bytes written",
				Input: desc, Expected: fmt.Sprint(predicted), Got: fmt.Sprint(offsets[1])})
		}
	}
	c.Count(stream, desc, outcome, predicted, nontrivial)
	if c.Rng.Intn(2000) == 0 {
		c.Sample(map[string]interface{}{"stream": stream, "case": trunc(desc, 160), "bytes": trunc(hex.EncodeToString(buf), 80)})
	}
}

// roundTripSequence writes several fields (kinds repeat, so two lists of one packed kind follow each
// other) into one buffer of exactly the predicted total size and reads them back in order with ONE
// decoder: every value must be the one written, the cursor must end at the predicted size, and every
// value handed out must still read the same after the later calls (runDecProgram re-reads them).
func roundTripSequence(c *fw.Ctx, kinds []kind, fast bool) {
	const stream = "sequence"
	var eops []encOp
	var dops []decOp
	var want []string
	predicted := 0
	var names []string
	for _, k := range kinds {
		tag := genTag(c.Rng)
		v := k.gen(c.Rng)
		if k.packed && len(v.us) == 0 {
			continue // an empty packed list writes nothing: there is no field to read back
		}
		eops = append(eops, k.enc(tag, v))
		dops = append(dops, decOp{name: "tag"}, decOp{name: k.decOp})
		want = append(want, fmt.Sprintf("t%d/%d", tag, k.wt), k.item(v))
		predicted += csproto.SizeOfTagKey(tag) + k.size(v)
		names = append(names, k.name)
	}
	if len(eops) == 0 {
		return
	}
	desc := fmt.Sprintf("fast=%v kinds=%v", fast, names)
	c.Journal("C01 sequence " + desc)
	req, reply, panicked, buf, off := runEncProgram(predicted, eops)
	c.Model(stream, req, reply)
	outcome := "ok"
	if panicked || off != predicted {
		outcome = "size-mismatch"
		c.Violate(fw.Violation{Stream: stream, Signature: "encode/sequence/size", What: "a sequence of fields did not fill the buffer sized from the size helpers exactly",
			Input: trunc(req, 400), Expected: fmt.Sprint(predicted), Got: fmt.Sprintf("%d panicked=%v", off, panicked)})
	} else {
		rq, rp, results, offsets := runDecProgram(fast, buf, dops)
		c.ModelCmp(stream, rq, rp, stripAlloc)
		reportHeld(c, stream)
		for i := range dops {
			if i >= len(results) || !results[i].ok || results[i].item != want[i] {
				outcome = "value-mismatch"
				got := "-"
				if i < len(results) {
					got = results[i].reply
				}
				c.Violate(fw.Violation{Stream: stream, Signature: "decode/sequence/" + dops[i].name, What: "reading a sequence of fields back did not return what was written",
					Input: trunc(req, 400), Expected: trunc(want[i], 200), Got: trunc(got, 200)})
				break
			}
		}
		if outcome == "ok" && offsets[len(offsets)-1] != predicted {
			outcome = "consumed-mismatch"
			c.Violate(fw.Violation{Stream: stream, Signature: "decode/sequence/consumed", What: "reading a sequence of fields back did not consume exactly the bytes written",
				Input: trunc(req, 400), Expected: fmt.Sprint(predicted), Got: fmt.Sprint(offsets[len(offsets)-1])})
		}
	}
	c.Count(stream, req, outcome, predicted, len(eops) > 1)
}

func trunc(s string, n int) string {
	if len(s) > n {
		return s[:n] + "…"
	}
	return s
}

func tagClass(tag int) string {
	switch {
	case tag < 16:
		return "1-byte-key"
	case tag < 1<<26:
		return "below-2^26"
	default:
		return "2^26-and-above"
	}
}

func runC01(c *fw.Ctx) int {
	c.Facts = extractFacts(c)
	c.Prove("C01")
	n := 3000
	if c.Tier == "thorough" {
		n = 150000
	}
	streamWirePrimitives(c, n)
	c.FlushModel()
	sk, pk := scalarKinds(), packedKinds()
	// every kind at every interesting field number with boundary values first
	for _, ks := range [][]kind{sk, pk} {
		for _, k := range ks {
			for _, tag := range interestingTags {
				for _, fast := range []bool{false, true} {
					roundTripField(c, "field", k, tag, k.gen(c.Rng), fast)
				}
			}
		}
	}
	// packed lists of n equal wide elements, n around every point where the payload crosses a
	// length-prefix boundary for 1-, 4-, 5-, 8- and 10-byte elements
	for _, k := range pk {
		var w uint64
		for d := 0; d < 12; d++ {
			for _, u := range k.gen(c.Rng).us {
				if u > w {
					w = u
				}
			}
		}
		for _, n := range []int{12, 13, 15, 16, 17, 25, 26, 31, 32, 33, 63, 64, 127, 128, 129} {
			us := make([]uint64, n)
			for i := range us {
				us[i] = w
			}
			roundTripField(c, "packed", k, interestingTags[(n+len(k.name))%len(interestingTags)], wval{us: us}, n%2 == 0)
		}
	}
	// … and around 16384 bytes (three-byte length prefix)
	for _, k := range pk {
		bigPackedLists(k, c.Rng, func(v wval) {
			roundTripField(c, "packed", k, interestingTags[c.Rng.Intn(len(interestingTags))], v, c.Rng.Bool())
		})
	}
	c.FlushModel()
	rounds := n / 4
	for i := 0; i < rounds; i++ {
		k := sk[c.Rng.Intn(len(sk))]
		roundTripField(c, "field", k, genTag(c.Rng), k.gen(c.Rng), c.Rng.Bool())
		if i%4 == 0 {
			k = pk[c.Rng.Intn(len(pk))]
			roundTripField(c, "packed", k, genTag(c.Rng), k.gen(c.Rng), c.Rng.Bool())
		}
		if i%5000 == 4999 {
			c.FlushModel()
		}
	}
	// sequences of fields through one encoder and one decoder; every kind twice in a row at least once
	all := append(append([]kind{}, sk...), pk...)
	for _, k := range all {
		for _, fast := range []bool{false, true} {
			roundTripSequence(c, []kind{k, k, all[c.Rng.Intn(len(all))], k}, fast)
		}
	}
	for i := 0; i < rounds/4; i++ {
		ks := make([]kind, 2+c.Rng.Intn(5))
		for j := range ks {
			ks[j] = all[c.Rng.Intn(len(all))]
			if j > 0 && c.Rng.Chance(1, 3) {
				ks[j] = ks[j-1]
			}
		}
		roundTripSequence(c, ks, c.Rng.Bool())
		if i%2000 == 1999 {
			c.FlushModel()
		}
	}
	if c.Tier == "thorough" {
		c.LeanChecker("C01")
	}
	return c.Finish(
		"wire: boundary-biased 64-bit values (2^k, 2^k±1, small, complements, random) through every free encode/decode/size function; field/packed: one field of each of the 15 scalar and 13 packed kinds written into a buffer of exactly the predicted size and read back in safe or fast mode at field numbers {1,2,15,16,2047,2048,2^18±,2^21±,2^26±,2^28,2^29-2,2^29-1} and random ones; sequence: 2-6 fields (kinds repeat) written by one encoder into a buffer of the predicted total size and read back by one decoder, every returned slice/string re-read after the later calls; non-trivial = distinct case whose encoding is longer than 2 bytes",
		append(trustedCommon, "Go float32/float64 argument passing preserves NaN payloads (exercised, not modelled)"),
		[]string{"model of encoder.go/decoder.go/sizeof.go is hand-written; tied by facts F1/F2 and by the correspondence streams of this run"})
}
