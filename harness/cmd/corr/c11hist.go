package main

// C11, stream "histories": csproto.Marshal / csproto.Size / GrpcCodec.Marshal give the result of the CURRENT contents
// whatever happened to the message before.
//
// The runtimes keep per-message size caches (protobuf-go: sizeCache of every message of the tree, written by
// proto.Size / proto.Marshal; gogo / golang v1: XXX_sizecache).  A dispatcher that hands a message to its runtime
// must not let a cache entry of an earlier call decide anything: between two calls the caller may have changed any
// field at any depth — a string of a sub-message, an element of a repeated sub-message, a map value, the member of
// a oneof — and the length prefixes of all enclosing messages change with it.  The stream draws histories of
//   mutate (one random site ANYWHERE in the value tree) | runtime Size | runtime Marshal | csproto.Size |
//   csproto.Marshal | GrpcCodec.Marshal
// over every type of the shim corpus plus a set of types with messages nested two and three levels deep, and
// compares every csproto result with the owning runtime's result on a fresh clone (whose caches are empty).

import (
	"fmt"
	"reflect"
	"sort"
	"strings"

	"github.com/CrowdStrike/csproto"
	gogodesc "github.com/gogo/protobuf/protoc-gen-gogo/descriptor"
	protov2 "google.golang.org/protobuf/proto"
	"google.golang.org/protobuf/types/descriptorpb"
	"google.golang.org/protobuf/types/known/structpb"
	"google.golang.org/protobuf/types/known/timestamppb"

	ex3v2 "github.com/CrowdStrike/csproto/example/proto3/googlev2"

	"csverif/internal/fw"
	"csverif/internal/prng"
)

// ---------- mutation sites of a populated message, found by reflection ----------

type sizeSite struct {
	path  string
	depth int // messages entered on the way (1 = a field of the outermost message)
	apply func(r *prng.Rng) string
}

var siteLens = []int{0, 1, 5, 126, 127, 128, 129, 200, 300}
var siteInts = []int64{0, 1, 127, 128, 16383, 16384, 1<<30 + 12345, -1}

func otherLen(r *prng.Rng, cur int) int {
	for {
		if n := siteLens[r.Intn(len(siteLens))]; n != cur {
			return n
		}
	}
}

// sizeSites lists every place of the value tree where a change alters (or may alter) the encoded size: strings,
// bytes, integers, bools, floats (struct fields, optional-scalar pointers, list elements, map values, oneof members),
// lists (append / drop) and maps (insert / delete), at any depth.
func sizeSites(v reflect.Value, path string, depth int, out *[]sizeSite, guard int) {
	if guard > 16 {
		return
	}
	add := func(f func(r *prng.Rng) string) { *out = append(*out, sizeSite{path, depth, f}) }
	switch v.Kind() {
	case reflect.Ptr:
		if v.IsNil() {
			return
		}
		if v.Elem().Kind() == reflect.Struct {
			sizeSites(v.Elem(), path, depth+1, out, guard+1)
			return
		}
		sizeSites(v.Elem(), path, depth, out, guard+1)
	case reflect.Interface:
		// the wrapper struct of a oneof member: not a message of its own
		if !v.IsNil() && v.Elem().Kind() == reflect.Ptr && !v.Elem().IsNil() && v.Elem().Elem().Kind() == reflect.Struct {
			sizeSites(v.Elem().Elem(), path, depth, out, guard+1)
		}
	case reflect.Struct:
		for i := 0; i < v.NumField(); i++ {
			if sf := v.Type().Field(i); exportedDataField(sf) {
				sizeSites(v.Field(i), path+"."+sf.Name, depth, out, guard+1)
			}
		}
	case reflect.String:
		if v.CanSet() {
			add(func(r *prng.Rng) string {
				n := otherLen(r, v.Len())
				v.SetString(strings.Repeat("g", n))
				return fmt.Sprintf("len=%d", n)
			})
		}
	case reflect.Slice:
		if v.Type().Elem().Kind() == reflect.Uint8 {
			if v.CanSet() {
				add(func(r *prng.Rng) string {
					n := otherLen(r, v.Len())
					v.SetBytes([]byte(strings.Repeat("\x07", n)))
					return fmt.Sprintf("len=%d", n)
				})
			}
			return
		}
		for i := 0; i < v.Len(); i++ {
			sizeSites(v.Index(i), fmt.Sprintf("%s[%d]", path, i), depth, out, guard+1)
		}
		if v.CanSet() {
			add(func(r *prng.Rng) string {
				if v.Len() > 0 && r.Chance(1, 2) {
					v.Set(v.Slice(0, v.Len()-1))
					return "drop last"
				}
				el := reflect.New(v.Type().Elem()).Elem()
				switch {
				case el.Kind() == reflect.Ptr && el.Type().Elem().Kind() == reflect.Struct:
					el.Set(reflect.New(el.Type().Elem()))
				case el.Kind() == reflect.Ptr:
					return "unchanged"
				case el.Kind() == reflect.String:
					el.SetString("appended")
				case el.CanInt():
					el.SetInt(300)
				case el.CanUint():
					el.SetUint(300)
				case el.CanFloat():
					el.SetFloat(2.25)
				}
				v.Set(reflect.Append(v, el))
				return "append"
			})
		}
	case reflect.Map:
		keys := v.MapKeys()
		sort.Slice(keys, func(i, j int) bool { return fmt.Sprint(keys[i].Interface()) < fmt.Sprint(keys[j].Interface()) })
		et := v.Type().Elem()
		for _, k := range keys {
			k := k
			p := fmt.Sprintf("%s[%v]", path, k.Interface())
			switch {
			case et.Kind() == reflect.Ptr || et.Kind() == reflect.Interface:
				sizeSites(v.MapIndex(k), p, depth, out, guard+1)
			case et.Kind() == reflect.String:
				*out = append(*out, sizeSite{p, depth, func(r *prng.Rng) string {
					n := otherLen(r, v.MapIndex(k).Len())
					v.SetMapIndex(k, reflect.ValueOf(strings.Repeat("g", n)).Convert(et))
					return fmt.Sprintf("len=%d", n)
				}})
			case et.PkgPath() == "" && (et.Kind() == reflect.Int32 || et.Kind() == reflect.Int64 || et.Kind() == reflect.Uint32 || et.Kind() == reflect.Uint64):
				*out = append(*out, sizeSite{p, depth, func(r *prng.Rng) string {
					x := siteInts[r.Intn(len(siteInts)-1)] // (no negative number: the element type may be unsigned)
					v.SetMapIndex(k, reflect.ValueOf(x).Convert(et))
					return fmt.Sprint(x)
				}})
			}
		}
		if !v.IsNil() && len(keys) > 0 {
			add(func(r *prng.Rng) string {
				v.SetMapIndex(keys[r.Intn(len(keys))], reflect.Value{})
				return "delete a key"
			})
		}
		if !v.IsNil() && v.Type().Key().Kind() == reflect.String && et.Kind() == reflect.Ptr && et.Elem().Kind() == reflect.Struct {
			add(func(r *prng.Rng) string {
				v.SetMapIndex(reflect.ValueOf(fmt.Sprint("added", r.Intn(1000))).Convert(v.Type().Key()), reflect.New(et.Elem()))
				return "insert a key with an empty message"
			})
		}
	case reflect.Int32, reflect.Int64:
		if v.CanSet() && v.Type().PkgPath() == "" { // (a named type is an enum: left alone)
			add(func(r *prng.Rng) string {
				x := siteInts[r.Intn(len(siteInts))]
				v.SetInt(x)
				return fmt.Sprint(v.Int())
			})
		}
	case reflect.Uint32, reflect.Uint64:
		if v.CanSet() && v.Type().PkgPath() == "" {
			add(func(r *prng.Rng) string {
				x := siteInts[r.Intn(len(siteInts)-1)]
				v.SetUint(uint64(x))
				return fmt.Sprint(x)
			})
		}
	case reflect.Bool:
		if v.CanSet() {
			add(func(r *prng.Rng) string { v.SetBool(!v.Bool()); return fmt.Sprint(v.Bool()) })
		}
	case reflect.Float32, reflect.Float64:
		if v.CanSet() {
			add(func(r *prng.Rng) string {
				x := []float64{0, 1.5, 2.25}[r.Intn(3)]
				v.SetFloat(x)
				return fmt.Sprint(x)
			})
		}
	}
}

// ---------- types whose values hold messages inside messages ----------

func v2FieldProto(r *prng.Rng, s string) *descriptorpb.FieldDescriptorProto {
	f := &descriptorpb.FieldDescriptorProto{Name: protov2.String(s), Number: protov2.Int32(int32(1 + r.Intn(300)))}
	if r.Chance(2, 3) {
		f.Options = &descriptorpb.FieldOptions{Packed: protov2.Bool(r.Bool()),
			UninterpretedOption: []*descriptorpb.UninterpretedOption{{IdentifierValue: protov2.String(s), Name: []*descriptorpb.UninterpretedOption_NamePart{{NamePart: protov2.String("p"), IsExtension: protov2.Bool(false)}}}}}
	}
	return f
}

func nestedShimCorpus() []shimType {
	str := func(r *prng.Rng) string { return string(asciiBytes(r, r.Intn(12))) }
	return []shimType{
		{name: "googlev2/plain/descriptorpb.DescriptorProto(messages three levels deep: lists of messages with options with lists of messages)", ops: v2Ops, mt: 3,
			gen: func(r *prng.Rng) interface{} {
				d := &descriptorpb.DescriptorProto{Name: protov2.String(str(r)), Field: []*descriptorpb.FieldDescriptorProto{v2FieldProto(r, str(r)), v2FieldProto(r, "f2")},
					Options: &descriptorpb.MessageOptions{Deprecated: protov2.Bool(true)}}
				for i := r.Intn(3); i > 0; i-- {
					d.NestedType = append(d.NestedType, &descriptorpb.DescriptorProto{Name: protov2.String(str(r)), Field: []*descriptorpb.FieldDescriptorProto{v2FieldProto(r, str(r))},
						ExtensionRange: []*descriptorpb.DescriptorProto_ExtensionRange{{Start: protov2.Int32(100), End: protov2.Int32(int32(200 + r.Intn(1000)))}}})
				}
				return d
			},
			fresh: func() interface{} { return &descriptorpb.DescriptorProto{} }, mutate: func(m interface{}) { m.(*descriptorpb.DescriptorProto).Name = protov2.String("changed!") }},
		{name: "googlev2/plain/descriptorpb.FileDescriptorProto(messages four levels deep)", ops: v2Ops, mt: 3,
			gen: func(r *prng.Rng) interface{} {
				return &descriptorpb.FileDescriptorProto{Name: protov2.String(str(r)), Package: protov2.String("p"),
					MessageType: []*descriptorpb.DescriptorProto{{Name: protov2.String(str(r)), Field: []*descriptorpb.FieldDescriptorProto{v2FieldProto(r, str(r))},
						NestedType: []*descriptorpb.DescriptorProto{{Name: protov2.String(str(r)), Field: []*descriptorpb.FieldDescriptorProto{v2FieldProto(r, "inner")}}}}},
					Service: []*descriptorpb.ServiceDescriptorProto{{Name: protov2.String(str(r)), Method: []*descriptorpb.MethodDescriptorProto{{Name: protov2.String(str(r)), InputType: protov2.String(".p.M")}}}}}
			},
			fresh: func() interface{} { return &descriptorpb.FileDescriptorProto{} }, mutate: func(m interface{}) { m.(*descriptorpb.FileDescriptorProto).Name = protov2.String("changed!") }},
		{name: "googlev2/plain/structpb.ListValue(strings, nested lists and structs)", ops: v2Ops, mt: 3,
			gen: func(r *prng.Rng) interface{} {
				l := &structpb.ListValue{Values: []*structpb.Value{structpb.NewStringValue(str(r)), structpb.NewStructValue(v2Struct(r, 1))}}
				for i := r.Intn(3); i > 0; i-- {
					l.Values = append(l.Values, structpb.NewListValue(&structpb.ListValue{Values: []*structpb.Value{structpb.NewStringValue(str(r)), v2Value(r, 1)}}))
				}
				return l
			},
			fresh: func() interface{} { return &structpb.ListValue{} },
			mutate: func(m interface{}) {
				l := m.(*structpb.ListValue)
				l.Values = append(l.Values, structpb.NewBoolValue(true))
			}},
		{name: "googlev2/plain/structpb.Struct(string values, structs in structs)", ops: v2Ops, mt: 3,
			gen: func(r *prng.Rng) interface{} {
				s := v2Struct(r, 2)
				s.Fields["s"] = structpb.NewStringValue(str(r))
				s.Fields["sub"] = structpb.NewStructValue(&structpb.Struct{Fields: map[string]*structpb.Value{"t": structpb.NewStringValue(str(r)), "l": structpb.NewListValue(&structpb.ListValue{Values: []*structpb.Value{structpb.NewStringValue(str(r))}})}})
				return s
			},
			fresh:  func() interface{} { return &structpb.Struct{} },
			mutate: func(m interface{}) { m.(*structpb.Struct).Fields["changed!"] = structpb.NewBoolValue(true) }},
		{name: "gogo/plain/descriptor.FileDescriptorProto(messages four levels deep)", ops: gogoOps, mt: 1,
			gen: func(r *prng.Rng) interface{} {
				return &gogodesc.FileDescriptorProto{Name: sp(str(r)), MessageType: []*gogodesc.DescriptorProto{{Name: sp(str(r)), Field: []*gogodesc.FieldDescriptorProto{{Name: sp(str(r)), Number: i32p(int32(1 + r.Intn(100))),
					Options: &gogodesc.FieldOptions{UninterpretedOption: []*gogodesc.UninterpretedOption{{IdentifierValue: sp(str(r))}}}}},
					NestedType: []*gogodesc.DescriptorProto{{Name: sp(str(r)), Field: []*gogodesc.FieldDescriptorProto{{Name: sp("inner")}}}}}}}
			},
			fresh: func() interface{} { return &gogodesc.FileDescriptorProto{} }, mutate: func(m interface{}) { m.(*gogodesc.FileDescriptorProto).Name = sp("changed!") }},
		{name: "googlev2/fast-marshal/proto3.TestEvent(generated and runtime-served messages inside: singular, oneof member)", fastM: true, ops: v2Ops, mt: 3,
			gen: func(r *prng.Rng) interface{} {
				e := &ex3v2.TestEvent{Name: str(r), Labels: []string{str(r)}, Embedded: &ex3v2.EmbeddedEvent{ID: int32(r.Intn(99)), Stuff: str(r)}, Ts: timestamppb.New(timeFrom(r))}
				if r.Bool() {
					e.Oneofs = &ex3v2.TestEvent_Structs{Structs: v2Struct(r, 1)}
				} else {
					e.Oneofs = &ex3v2.TestEvent_Timestamps{Timestamps: timestamppb.New(timeFrom(r))}
				}
				return e
			},
			fresh: func() interface{} { return &ex3v2.TestEvent{} }, mutate: func(m interface{}) { m.(*ex3v2.TestEvent).Name += "changed!" }},
		{name: "googlev2/fast-marshal/proto3.Maps(runtime-served and generated messages as map values)", fastM: true, ops: v2Ops, mt: 3,
			gen: func(r *prng.Rng) interface{} {
				return &ex3v2.Maps{Strings: map[string]string{"a": str(r)}, Int32S: map[int32]int32{1: int32(r.Intn(500))},
					Structs:    map[string]*structpb.Struct{"s": v2Struct(r, 1), "t": {Fields: map[string]*structpb.Value{"x": structpb.NewStringValue(str(r))}}},
					Timestamps: map[string]*timestamppb.Timestamp{"now": timestamppb.New(timeFrom(r))},
					Objects:    map[string]*ex3v2.MapObject{"o": {Name: str(r), Ts: timestamppb.New(timeFrom(r)), Attributes: map[string]string{"k": str(r)}}}}
			},
			fresh: func() interface{} { return &ex3v2.Maps{} }, mutate: func(m interface{}) { m.(*ex3v2.Maps).Strings["changed!"] = "x" }},
	}
}

// ---------- the histories ----------

func shimHistory(c *fw.Ctx, t shimType) {
	r := c.Rng
	m := t.gen(r)
	var log []string
	start := ""
	safely(func() { start = trunc(t.ops.text(m), 400) })
	desc := func() string {
		return fmt.Sprintf("%s; initial value: %s; history: %s", t.name, start, strings.Join(log, " ; "))
	}
	outcome := "ok"
	bad := func(sig, what, exp, got string) {
		outcome = sig
		c.Violate(fw.Violation{Stream: "histories", Signature: "shim/" + sig + "/" + t.ops.class, What: what, Input: desc(), Expected: trunc(exp, 300), Got: trunc(got, 300)})
	}
	// what the owning runtime says about a fresh clone of the current contents (no cache entry anywhere in it)
	reference := func() (want []byte, size int, ok bool) {
		p := safely(func() {
			ref := t.ops.clone(m)
			var err error
			want, err = t.ops.marshal(ref)
			size = t.ops.size(t.ops.clone(m))
			ok = err == nil
		})
		return want, size, ok && p == ""
	}
	steps := 3 + r.Intn(7)
	mutated := 0
	for i := 0; i < steps && outcome == "ok"; i++ {
		c.Journal("C11 history " + desc())
		switch k := r.Intn(11); {
		case k < 4:
			var sites []sizeSite
			sizeSites(reflect.ValueOf(m), "", 0, &sites, 0)
			if len(sites) == 0 {
				log = append(log, "mutate(nothing to change)")
				continue
			}
			// half of the time a site inside a sub-message, the deeper the better, if there is one
			s := sites[r.Intn(len(sites))]
			if r.Bool() {
				var deep []sizeSite
				for _, x := range sites {
					if x.depth >= 2 {
						deep = append(deep, x)
					}
				}
				if len(deep) > 0 {
					s = deep[r.Intn(len(deep))]
				}
			}
			log = append(log, fmt.Sprintf("mutate(%s: %s)", s.path, s.apply(r)))
			mutated++
		case k == 4:
			log = append(log, "runtime.Size")
			safely(func() { t.ops.size(m) })
		case k == 5:
			log = append(log, "runtime.Marshal")
			safely(func() { t.ops.marshal(m) })
		case k == 6:
			log = append(log, "csproto.Size")
			_, wsz, ok := reference()
			var sz int
			if p := safely(func() { sz = csproto.Size(m) }); p != "" {
				bad("history-panic", "csproto.Size panicked after a history of calls and field changes", "no panic", p)
			} else if ok && sz != wsz {
				bad("stale-size", "csproto.Size is not the size of the current contents (the owning runtime's Size of a fresh clone)", fmt.Sprint(wsz), fmt.Sprint(sz))
			}
		default:
			how := []string{"csproto.Marshal", "csproto.Marshal", "GrpcCodec.Marshal"}[r.Intn(3)]
			log = append(log, how)
			want, _, ok := reference()
			var got []byte
			var err error
			if p := safely(func() {
				if how == "GrpcCodec.Marshal" {
					got, err = csproto.GrpcCodec{}.Marshal(m)
				} else {
					got, err = csproto.Marshal(m)
				}
			}); p != "" {
				bad("history-panic", how+" panicked after a history of calls and field changes", "no panic", p)
				break
			}
			if !ok {
				break // the runtime itself cannot marshal these contents
			}
			if err != nil {
				bad("stale-marshal-error", how+" failed on contents the owning runtime marshals (fresh clone)", fmt.Sprintf("%x", want), err.Error())
				break
			}
			viaCs, viaRt := t.fresh(), t.fresh()
			e1, e2 := t.ops.unmarshal(got, viaCs), t.ops.unmarshal(want, viaRt)
			if len(got) != len(want) || e1 != nil || e2 != nil || !sameMessage(t, viaCs, viaRt) {
				bad("stale-marshal", how+" did not return the encoding of the current contents: the bytes differ in length from / do not decode to the same message as the owning runtime's Marshal of a fresh clone",
					fmt.Sprintf("len=%d %x", len(want), want), fmt.Sprintf("len=%d %x decodeErr=%v", len(got), got, e1))
			}
		}
	}
	c.Count("histories", desc(), outcome, mutated, true)
}
