package main

import (
	"fmt"
	"strings"

	"github.com/CrowdStrike/csproto/lazyproto"

	"csverif/internal/fw"
)

// C13, stream "live": ONE Decoder, SEVERAL results alive at the same time.
//
// The property quantifies over messages and definitions: "nested paths [return] the corresponding
// sub-message's values", whatever else the Decoder is doing.  The other C13 streams only ever have one result
// per Decoder alive (decode, read, close, next).  Here a history keeps two to four root results of one
// Decoder open at once and interleaves, in random order,
//
//   - path requests of any length (every accessor) on any live root or nested result,
//   - NestedResult / NestedResults handles that are kept and read again later,
//   - *FieldData objects taken out (FieldData(path…)) and read again later,
//   - Close of the root results in any order (not the order they were opened in), followed by further
//     Decodes that recycle the pooled objects while the other results are still being read.
//
// Every answer is compared with the protowire reference walk of THAT result's own (sub-)message bytes, and the
// whole history — with the object identities the pools were observed to hand out — is replayed on the Lean
// model (`LState.step`; by `C14N.nested_history_refines` its answers are those of the pool-free specification).

type liveHandle struct {
	res    *lazyproto.DecodeResult
	input  []byte // the bytes this result was decoded from (nil result: empty)
	def    *lzDef
	root   int
	nested bool
	dead   bool
	label  string
}

type liveFD struct {
	h    int
	path []int
	fd   *lazyproto.FieldData
}

func hasNestedDef(d *lzDef) bool {
	for _, e := range d.entries {
		if e.sub != nil && e.key > 0 {
			return true
		}
	}
	return false
}

func lazyLiveCase(c *fw.Ctx) {
	const stream = "live"
	r := c.Rng
	var fs []*lzField
	var def *lzDef
	for try := 0; try < 8; try++ {
		fs = genLzFields(r, 0)
		def = genLzDef(r, fs, 0)
		if hasNestedDef(def) {
			break
		}
	}
	opt := genOptCombo(r)
	opts := opt.options()
	dec, err := lazyproto.NewDecoder(def.toDef(), opts...)
	if err != nil {
		return
	}
	newInput := func() []byte {
		for _, f := range fs {
			f.count = []int{0, 1, 1, 2, 3}[r.Intn(5)]
			if f.kind == lzMsg && f.count == 0 && r.Chance(3, 4) {
				f.count = 1 // nested messages are what this stream is about
			}
		}
		if r.Chance(1, 20) {
			return nil // the empty message: a nil result
		}
		return encodeLz(r, fs)
	}
	desc := fmt.Sprintf("def=%s %s", def.String(), opt)
	req := []string{fmt.Sprintf("L 1 %s", def.String())}
	var rep []string
	handles := map[int]*liveHandle{}
	objID := map[*lazyproto.DecodeResult]int{}
	nextH, nextObj := 0, 0
	var held []liveFD
	maxLive := 2 + r.Intn(3)
	maxLiveSeen, reused := 0, 0
	violated := false
	violate := func(sig, what, expected, got string) {
		if violated {
			return
		}
		violated = true
		var open []string
		for h := 0; h < nextH; h++ {
			if hd := handles[h]; hd != nil && !hd.dead {
				open = append(open, fmt.Sprintf("%d=%s", h, hd.label))
			}
		}
		c.Violate(fw.Violation{Stream: stream, Signature: sig, What: what,
			Input: map[string]interface{}{"decoder": desc, "history (the last operation is the failing one)": strings.Join(req[1:], " ; "),
				"results open at that point (handle=what it was decoded from)": strings.Join(open, " ; ")}, Expected: trunc(expected, 300), Got: trunc(got, 300)})
	}
	choiceFor := func(p *lazyproto.DecodeResult) string {
		if id, ok := objID[p]; ok {
			reused++
			return fmt.Sprintf("reuse:%d", id)
		}
		objID[p] = nextObj
		nextObj++
		return fmt.Sprintf("new:%d", nextObj-1)
	}
	live := func(pred func(*liveHandle) bool) []int {
		var hs []int
		for h := 0; h < nextH; h++ {
			if hd, ok := handles[h]; ok && !hd.dead && pred(hd) {
				hs = append(hs, h)
			}
		}
		return hs
	}
	nestedTagOf := func(hd *liveHandle) int {
		tag := 1 + r.Intn(8)
		if hd.def != nil {
			for _, e := range hd.def.entries {
				if e.sub != nil && r.Chance(3, 4) {
					tag = e.key
				}
			}
		}
		if tag < 0 {
			tag = -tag
		}
		return tag
	}
	pathOf := func(hd *liveHandle) []int {
		d := hd.def
		if d == nil {
			d = &lzDef{}
		}
		p := genLzPath(r, d, fs)
		// prefer paths that really descend into a nested message
		for try := 0; try < 3 && len(p) < 2 && hasNestedDef(d) && r.Chance(2, 3); try++ {
			p = genLzPath(r, d, fs)
		}
		return p
	}
	answer := func(h int, path []int, name, got, sigPrefix, what string) {
		hd := handles[h]
		d := hd.def
		if d == nil {
			d = &lzDef{}
		}
		if got == "panic" {
			violate("lazy/accessor-panic/"+name, "accessor panicked", "", "panic")
			return
		}
		if want, ok := refPathAnswer(hd.input, d, path, name); ok && want != got {
			violate(sigPrefix+name, what, want, got)
		}
	}
	steps := 14 + r.Intn(26)
	for step := 0; step < steps && !violated; step++ {
		c.Journal("C13 live " + desc + " | " + trunc(strings.Join(req[1:], " ; "), 3000))
		rootsLive := live(func(h *liveHandle) bool { return !h.nested })
		any := live(func(h *liveHandle) bool { return true })
		if len(rootsLive) > maxLiveSeen {
			maxLiveSeen = len(rootsLive)
		}
		x := r.Intn(100)
		switch {
		case len(rootsLive) < 2 || (x < 18 && len(rootsLive) < maxLive): // Decode: one more result of the same Decoder
			in := newInput()
			var res *lazyproto.DecodeResult
			var derr error
			if p := safely(func() { res, derr = dec.Decode(in) }); p != "" {
				req = append(req, fmt.Sprintf("decode %d %s new:%d", nextH, hexs(in), nextObj))
				rep = append(rep, "panic")
				violate("lazy/decode-panic", "lazy decode panicked", "", p)
				break
			}
			switch {
			case derr != nil:
				req = append(req, fmt.Sprintf("decode %d %s new:%d", nextH, hexs(in), 900000+step))
				rep = append(rep, "err")
				violate("lazy/decode-error-on-well-formed", "lazy decoding failed on a well-formed message (other results of the Decoder were open)", "ok", derr.Error())
			case res == nil:
				req = append(req, fmt.Sprintf("decode %d %s new:%d", nextH, hexs(in), nextObj))
				rep = append(rep, "nil")
				handles[nextH] = &liveHandle{def: def, root: nextH, label: "decode(-)"}
				nextH++
			default:
				req = append(req, fmt.Sprintf("decode %d %s %s", nextH, hexs(in), choiceFor(res)))
				rep = append(rep, "ok")
				handles[nextH] = &liveHandle{res: res, input: in, def: def, root: nextH, label: "decode(" + trunc(hexs(in), 120) + ")"}
				nextH++
			}
		case x < 50: // a path request on any live result
			h := any[r.Intn(len(any))]
			hd := handles[h]
			path := pathOf(hd)
			names := []string{accNames[r.Intn(len(accNames))]}
			if r.Chance(1, 6) {
				names = accNames
			}
			for _, name := range names {
				if violated {
					break
				}
				got := accessPath(hd.res, path, name)
				req = append(req, fmt.Sprintf("acc %d %s %s", h, pathString(path), name))
				rep = append(rep, got)
				answer(h, path, name, got, "lazy/answer-with-several-live-results/", "accessor result differs from the reference parse of the result's own bytes (several results of one Decoder were open)")
			}
		case x < 62: // NestedResult: a nested handle that is kept
			h := any[r.Intn(len(any))]
			hd := handles[h]
			tag := nestedTagOf(hd)
			var nr *lazyproto.DecodeResult
			var nerr error
			if p := safely(func() { nr, nerr = hd.res.NestedResult(tag) }); p != "" {
				req = append(req, fmt.Sprintf("nested %d %d %d new:%d", h, tag, nextH, nextObj))
				rep = append(rep, "panic")
				violate("lazy/nested-panic", "NestedResult panicked", "", p)
				break
			}
			var sub *lzDef
			if hd.def != nil {
				sub = hd.def.nestedFor(tag)
			}
			switch {
			case nerr != nil:
				req = append(req, fmt.Sprintf("nested %d %d %d new:%d", h, tag, nextH, nextObj))
				rep = append(rep, classifyLazyErr(nerr))
			case nr == nil:
				req = append(req, fmt.Sprintf("nested %d %d %d new:%d", h, tag, nextH, nextObj))
				rep = append(rep, "nil")
				handles[nextH] = &liveHandle{def: sub, root: hd.root, nested: true, label: fmt.Sprintf("NestedResult(%d) of %d: empty", tag, h)}
				nextH++
			default:
				req = append(req, fmt.Sprintf("nested %d %d %d %s", h, tag, nextH, choiceFor(nr)))
				rep = append(rep, "ok")
				payload, _ := lastPayload(hd.input, tag)
				handles[nextH] = &liveHandle{res: nr, input: payload, def: sub, root: hd.root, nested: true,
					label: fmt.Sprintf("NestedResult(%d) of %d = %s", tag, h, trunc(hexs(payload), 80))}
				nextH++
			}
		case x < 68: // NestedResults: one kept handle per occurrence
			h := any[r.Intn(len(any))]
			hd := handles[h]
			tag := nestedTagOf(hd)
			var nrs []*lazyproto.DecodeResult
			var nerr error
			if p := safely(func() { nrs, nerr = hd.res.NestedResults(tag) }); p != "" {
				req = append(req, fmt.Sprintf("nesteds %d %d - -", h, tag))
				rep = append(rep, "panic")
				violate("lazy/nesteds-panic", "NestedResults panicked", "", p)
				break
			}
			payloads := allPayloads(hd.input, tag)
			if nerr != nil {
				n := len(payloads)
				hs, cs := make([]string, n), make([]string, n)
				for i := range hs {
					hs[i], cs[i] = fmt.Sprint(nextH+i), fmt.Sprintf("new:%d", 910000+i)
				}
				req = append(req, fmt.Sprintf("nesteds %d %d %s %s", h, tag, dashJoin(hs), dashJoin(cs)))
				rep = append(rep, classifyLazyErr(nerr))
				break
			}
			var sub *lzDef
			if hd.def != nil {
				sub = hd.def.nestedFor(tag)
			}
			hs, cs, flags := make([]string, len(nrs)), make([]string, len(nrs)), make([]string, len(nrs))
			for i, nr := range nrs {
				hs[i] = fmt.Sprint(nextH)
				var in []byte
				if i < len(payloads) {
					in = payloads[i]
				}
				if nr == nil {
					cs[i], flags[i] = "new:999999", "0"
					handles[nextH] = &liveHandle{def: sub, root: hd.root, nested: true, label: fmt.Sprintf("NestedResults(%d)[%d] of %d: empty", tag, i, h)}
				} else {
					cs[i], flags[i] = choiceFor(nr), "1"
					handles[nextH] = &liveHandle{res: nr, input: in, def: sub, root: hd.root, nested: true,
						label: fmt.Sprintf("NestedResults(%d)[%d] of %d = %s", tag, i, h, trunc(hexs(in), 80))}
				}
				nextH++
			}
			req = append(req, fmt.Sprintf("nesteds %d %d %s %s", h, tag, dashJoin(hs), dashJoin(cs)))
			rep = append(rep, "many:"+dashJoin(flags))
		case x < 76: // take a *FieldData out and keep it (it stays valid until the root result is closed)
			h := any[r.Intn(len(any))]
			hd := handles[h]
			if hd.res == nil {
				break
			}
			path := pathOf(hd)
			var fd *lazyproto.FieldData
			var ferr error
			if p := safely(func() { fd, ferr = hd.res.FieldData(path...) }); p != "" {
				req = append(req, fmt.Sprintf("acc %d %s Bytess", h, pathString(path)))
				rep = append(rep, "panic")
				violate("lazy/fielddata-panic", "FieldData(path…) panicked", "", p)
				break
			}
			if ferr == nil && fd != nil {
				held = append(held, liveFD{h: h, path: path, fd: fd})
			}
		case x < 88 && len(held) > 0: // read a *FieldData taken out earlier
			k := r.Intn(len(held))
			hf := held[k]
			if handles[hf.h].dead {
				held = append(held[:k], held[k+1:]...)
				break
			}
			name := accNames[r.Intn(len(accNames))]
			got := callAccessor(hf.fd, name)
			// for the model a FieldData has no identity: it answers from the result's recorded data
			req = append(req, fmt.Sprintf("acc %d %s %s", hf.h, pathString(hf.path), name))
			rep = append(rep, got)
			answer(hf.h, hf.path, name, got, "lazy/held-fielddata-with-several-live-results/", "a FieldData taken out of a still-open result no longer answers with the values of that result's own bytes (several results of one Decoder were open)")
		default: // Close a root result — any of the open ones, not the oldest — or a nested handle (a no-op)
			h := rootsLive[r.Intn(len(rootsLive))]
			if nestedLive := live(func(h *liveHandle) bool { return h.nested }); len(nestedLive) > 0 && r.Chance(1, 5) {
				h = nestedLive[r.Intn(len(nestedLive))]
			}
			hd := handles[h]
			req = append(req, fmt.Sprintf("close %d", h))
			if p := safely(func() { hd.res.Close() }); p != "" {
				rep = append(rep, "panic")
				violate("lazy/close-panic", "Close panicked", "", p)
				break
			}
			rep = append(rep, "ok")
			if !hd.nested {
				for _, o := range handles {
					if o.root == h {
						o.dead = true
					}
				}
			}
		}
	}
	if !violated {
		// what is still open is read once more (every live result, one request each), then closed in random order
		for _, h := range live(func(h *liveHandle) bool { return true }) {
			hd := handles[h]
			path := pathOf(hd)
			name := accNames[r.Intn(len(accNames))]
			got := accessPath(hd.res, path, name)
			req = append(req, fmt.Sprintf("acc %d %s %s", h, pathString(path), name))
			rep = append(rep, got)
			answer(h, path, name, got, "lazy/answer-with-several-live-results/", "accessor result differs from the reference parse of the result's own bytes (several results of one Decoder were open)")
		}
	}
	rest := live(func(h *liveHandle) bool { return !h.nested })
	for i := len(rest) - 1; i > 0; i-- {
		j := r.Intn(i + 1)
		rest[i], rest[j] = rest[j], rest[i]
	}
	for _, h := range rest {
		req = append(req, fmt.Sprintf("close %d", h))
		if p := safely(func() { handles[h].res.Close() }); p != "" {
			rep = append(rep, "panic")
			violate("lazy/close-panic", "Close panicked", "", p)
			break
		}
		rep = append(rep, "ok")
	}
	c.Model(stream, strings.Join(req, " ; "), strings.Join(rep, " ; "))
	outcome := "ok"
	if violated {
		outcome = "violation"
	}
	c.Count(stream, strings.Join(req, " ; "), outcome, len(req), maxLiveSeen >= 2 && hasNestedDef(def))
	c.Extra["live_histories_with_2+_open_results"] = intOf(c.Extra["live_histories_with_2+_open_results"]) + map[bool]int{true: 1}[maxLiveSeen >= 2]
	c.Extra["live_objects_seen_reused"] = intOf(c.Extra["live_objects_seen_reused"]) + reused
	if r.Intn(60) == 0 {
		c.Sample(map[string]interface{}{"stream": stream, "decoder": desc, "history": trunc(strings.Join(req[1:], " ; "), 400)})
	}
}
