package main

import (
	"fmt"
	"os"
	"os/exec"
	"path/filepath"
	"runtime"
	"strings"
	"sync"
	"time"

	"github.com/CrowdStrike/csproto"
	"github.com/CrowdStrike/csproto/lazyproto"

	"csverif/internal/fw"
	"csverif/internal/prng"
)

func init() { props["C15"] = runC15 }

type concObs struct {
	req, rep string
	desc     string
	viol     *fw.Violation
	size     int
}

// sharedRound: G goroutines share one decoder; each decodes its own inputs, reads, closes.
func sharedRound(c *fw.Ctx, G, iters, procs int) {
	r := c.Rng
	fs := genLzFields(r, 0)
	def := genLzDef(r, fs, 0)
	fast := r.Bool()
	mode := csproto.DecoderModeSafe
	if fast {
		mode = csproto.DecoderModeFast
	}
	opts := []lazyproto.Option{lazyproto.WithMode(mode)}
	if r.Bool() {
		opts = append(opts, lazyproto.WithMaxBufferSize(r.Intn(3)))
	}
	dec, err := lazyproto.NewDecoder(def.toDef(), opts...)
	if err != nil {
		return
	}
	old := runtime.GOMAXPROCS(procs)
	defer runtime.GOMAXPROCS(old)
	seeds := make([]uint64, G)
	for i := range seeds {
		seeds[i] = r.U64()
	}
	// inputs are generated sequentially (the generator mutates the shared field list)
	inputs := make([][][]byte, G)
	type reqT struct {
		path []int
		name string
	}
	reqs := make([][][]reqT, G)
	for g := 0; g < G; g++ {
		gr := prng.New(seeds[g])
		for i := 0; i < iters; i++ {
			for _, f := range fs {
				f.count = []int{0, 1, 1, 2, 3}[gr.Intn(5)]
			}
			in := encodeLz(gr, fs)
			if gr.Chance(1, 8) && len(in) > 1 {
				// a malformed input now and then: a well-formed prefix, then a key without a value; the
				// failed pass must not leave anything behind for whoever gets the pooled object next
				in = append(append([]byte{}, in...), 0x08)
			}
			if gr.Chance(1, 10) {
				// well-formed at the top level, but the last occurrence of a repeated nested field is damaged:
				// Decode succeeds, NestedResults decodes the good occurrences and then fails
				if bad, ok := nestedCorruptInput(gr, def, fs, in); ok {
					if _, ok := refParse(in); ok {
						in = bad
					}
				}
			}
			inputs[g] = append(inputs[g], in)
			var rq []reqT
			for k := 0; k < 4; k++ {
				rq = append(rq, reqT{genLzPath(gr, def, fs), accNames[gr.Intn(len(accNames))]})
			}
			reqs[g] = append(reqs[g], rq)
		}
	}
	desc := fmt.Sprintf("G=%d procs=%d fast=%v def=%s", G, procs, fast, def.String())
	c.Journal("C15 " + desc)
	obs := make([][]concObs, G)
	var wg sync.WaitGroup
	for g := 0; g < G; g++ {
		wg.Add(1)
		go func(g int) {
			defer wg.Done()
			defer func() {
				if x := recover(); x != nil {
					obs[g] = append(obs[g], concObs{desc: desc, viol: &fw.Violation{Stream: "shared", Signature: "conc/panic", What: fmt.Sprintf("goroutine %d panicked: %v", g, x), Input: desc}})
				}
			}()
			for i, in := range inputs[g] {
				data := append([]byte{}, in...)
				res, err := dec.Decode(data)
				rq := []string{fmt.Sprintf("L 1 %s", def.String()), fmt.Sprintf("decode 0 %s new:0", hexs(in))}
				var rp []string
				switch {
				case err != nil:
					rp = append(rp, "err")
				case res == nil:
					rp = append(rp, "nil")
				default:
					rp = append(rp, "ok")
				}
				o := concObs{desc: desc, size: len(in)}
				if err == nil {
					for k, q := range reqs[g][i] {
						if k == 1 {
							runtime.Gosched()
						}
						got := accessPath(res, q.path, q.name)
						rq = append(rq, fmt.Sprintf("acc 0 %s %s", pathString(q.path), q.name))
						rp = append(rp, got)
						if want, ok := refPathAnswer(in, def, q.path, q.name); ok && want != got && o.viol == nil {
							o.viol = &fw.Violation{Stream: "shared", Signature: "conc/foreign-value/" + q.name,
								What:  fmt.Sprintf("goroutine %d observed a value that is not its own input's", g),
								Input: fmt.Sprintf("%s input=%s path=%s", desc, hexs(in), pathString(q.path)), Expected: trunc(want, 200), Got: trunc(got, 200)}
						}
					}
					// explicit nested results, closed by the client before the root (documented as a no-op)
					for _, e := range def.entries {
						if e.sub == nil || e.key < 0 {
							continue
						}
						if n, nerr := res.NestedResult(e.key); nerr == nil && n != nil {
							if payload, ok := lastPayload(in, e.key); ok {
								for _, se := range e.sub.entries {
									if se.sub != nil || se.key < 0 {
										continue
									}
									got := accessPath(n, []int{se.key}, "Bytess")
									if want, ok := refPathAnswer(payload, e.sub, []int{se.key}, "Bytess"); ok && want != got && o.viol == nil {
										o.viol = &fw.Violation{Stream: "shared", Signature: "conc/foreign-value/nested-result",
											What:  fmt.Sprintf("goroutine %d observed, in a nested result, a value that is not its own input's", g),
											Input: fmt.Sprintf("%s input=%s nested=%d tag=%d", desc, hexs(in), e.key, se.key), Expected: trunc(want, 200), Got: trunc(got, 200)}
									}
								}
							}
							n.Close()
						}
					}
					// all occurrences of every nested tag, each result compared with its own occurrence's bytes
					for _, e := range def.entries {
						if e.sub == nil || e.key < 0 {
							continue
						}
						nrs, nerr := res.NestedResults(e.key)
						if nerr != nil {
							continue
						}
						payloads := allPayloads(in, e.key)
						for j, n := range nrs {
							if n == nil || j >= len(payloads) {
								continue
							}
							for _, se := range e.sub.entries {
								if se.sub != nil || se.key < 0 {
									continue
								}
								for _, name := range []string{"Bytess", "UInt64s", "Fixed32s"} {
									got := accessPath(n, []int{se.key}, name)
									if want, ok := refPathAnswer(payloads[j], e.sub, []int{se.key}, name); ok && want != got && o.viol == nil {
										o.viol = &fw.Violation{Stream: "shared", Signature: "conc/foreign-value/nested-results",
											What:  fmt.Sprintf("goroutine %d observed, in element %d of NestedResults, a value that is not its own input's", g, j),
											Input: fmt.Sprintf("%s input=%s nested=%d tag=%d accessor=%s", desc, hexs(in), e.key, se.key, name), Expected: trunc(want, 200), Got: trunc(got, 200)}
									}
								}
							}
						}
					}
					res.Close()
				}
				o.req, o.rep = strings.Join(rq, " ; "), strings.Join(rp, " ; ")
				obs[g] = append(obs[g], o)
			}
		}(g)
	}
	wg.Wait()
	for g := range obs {
		for _, o := range obs[g] {
			if o.viol != nil {
				c.Violate(*o.viol)
			}
			if o.req != "" {
				// by C14 a recycled object is indistinguishable from a new one: the model is asked with `new`
				c.Model("shared", o.req, o.rep)
				c.Count("shared", o.req, fmt.Sprintf("G=%d/procs=%d", G, procs), o.size, o.size > 0)
			}
		}
	}
}

func runRace(c *fw.Ctx, bin string, args ...string) {
	cmd := exec.Command(bin, args...)
	cmd.Env = append(os.Environ(), "GORACE=halt_on_error=1 exitcode=66")
	out, err := cmd.CombinedOutput()
	desc := "racecheck " + strings.Join(args, " ")
	c.Journal("C15 " + desc)
	outcome := "clean"
	if err != nil {
		outcome = "failed"
		sig := "conc/race-detector"
		what := "the Go race detector reported a data race while goroutines shared one lazy Decoder"
		if !strings.Contains(string(out), "DATA RACE") {
			sig, what = "conc/mismatch-under-race-build", "a goroutine observed values that are not its own input's (race-enabled build)"
		}
		c.Violate(fw.Violation{Stream: "race-detector", Signature: sig, What: what, Input: desc, Got: trunc(string(out), 3000)})
	}
	c.Count("race-detector", desc, outcome, len(args), true)
}

func runC15(c *fw.Ctx) int {
	c.Facts = extractFacts(c)
	c.Prove("C15")
	rounds, iters := 30, 40
	if c.Tier == "thorough" {
		rounds, iters = 600, 150
	}
	for i := 0; i < rounds; i++ {
		G := []int{2, 3, 4, 8, 16, 64}[c.Rng.Intn(6)]
		procs := []int{1, 2, 16}[c.Rng.Intn(3)]
		sharedRound(c, G, iters, procs)
		if i%20 == 19 {
			c.FlushModel()
		}
	}
	// supporting evidence: the same kind of workload under the race detector
	scratch, err := os.MkdirTemp(filepath.Join(fw.VerifDir, ".cache"), "c15-")
	if err == nil {
		defer os.RemoveAll(scratch)
		bin := filepath.Join(scratch, "racecheck")
		build := exec.Command("go", "build", "-race", "-tags", "verif", "-o", bin, "./cmd/racecheck")
		build.Dir = filepath.Join(fw.VerifDir, "harness")
		t0 := time.Now()
		if out, err := build.CombinedOutput(); err != nil {
			c.Notes = append(c.Notes, "race-enabled build not available: "+trunc(string(out), 200))
		} else {
			c.Extra["race_build_s"] = time.Since(t0).Seconds()
			n := "1500"
			if c.Tier == "thorough" {
				n = "30000"
			}
			for _, a := range [][]string{{"-g", "8", "-procs", "16"}, {"-g", "64", "-procs", "2", "-fast"}, {"-g", "4", "-procs", "1", "-maxbuf", "1"}, {"-g", "16", "-procs", "16", "-fast", "-maxbuf", "0"}} {
				runRace(c, bin, append(a, "-n", n, "-seed", fmt.Sprint(c.Seed))...)
			}
		}
	}
	if c.Tier == "thorough" {
		c.LeanChecker("C15")
	}
	return c.Finish(
		"shared: G in {2,3,4,8,16,64} goroutines x GOMAXPROCS in {1,2,16} sharing one Decoder (random definition, safe/fast, optional max buffer); each goroutine decodes its own distinct inputs, issues 4 random (path, accessor) requests with an injected yield, closes; every answer is compared with the Lean model asked with a *new* object (C14: recycling is invisible) and with a reference parse of that goroutine's own input; race-detector: a fixed-schema workload (repeated varints, string, repeated nested messages read through NestedResults/NestedResult, packed fixed32, Range) built with -race, 4 configurations; non-trivial = non-empty input",
		append(trustedCommon, "sync.Pool: Put happens-before the Get that returns the same object; an object is handed to one getter at a time", "the Go race detector (supporting evidence only)"),
		[]string{"PARTIAL: data-race freedom in the sense of the Go memory model cannot be exhibited by the Lean model; the model proves the ownership discipline (exclusive ownership between Get and Put under every interleaving, conflicting accesses ordered by Put/Get, shared tables written only by constructors — the latter bridged to a regenerated table of all field writes in lazyproto)"})
}
