package main

import (
	"fmt"
	"os"
	"os/exec"
	"path/filepath"
	"runtime"
	"strings"
	"sync"
	"time"

	"github.com/CrowdStrike/csproto/lazyproto"

	"csverif/internal/fw"
	"csverif/internal/prng"
)

func init() { props["C15"] = runC15 }

type concObs struct {
	req, rep string
	desc     string
	viol     *fw.Violation
	size     int
}

// sharedRound: G goroutines share one decoder; each decodes its own inputs, reads, closes.
func sharedRound(c *fw.Ctx, G, iters, procs int) {
	r := c.Rng
	// two rounds in three: a definition that descends three or four message levels (root -> nested -> nested-in-nested
	// [-> one more]); nested results are pooled per nested Decoder, so the objects of the deeper levels are closed and
	// recycled between the goroutines just like the roots
	var fs []*lzField
	var def *lzDef
	if k := r.Intn(3); k > 0 {
		fs, def = genLzDeepCase(r, 2+k)
	} else {
		fs = genLzFields(r, 0)
		def = genLzDef(r, fs, 0)
	}
	opt := genOptCombo(r)
	fast := opt.fast
	dec, err := lazyproto.NewDecoder(def.toDef(), opt.options()...)
	if err != nil {
		return
	}
	// every path of the definition tree that goes below the root
	var deepPaths [][]int
	for _, p := range lzAllPaths(def) {
		if len(p) >= 2 {
			deepPaths = append(deepPaths, p)
		}
	}
	old := runtime.GOMAXPROCS(procs)
	defer runtime.GOMAXPROCS(old)
	seeds := make([]uint64, G)
	for i := range seeds {
		seeds[i] = r.U64()
	}
	// inputs are generated sequentially (the generator mutates the shared field list)
	inputs := make([][][]byte, G)
	type reqT struct {
		path []int
		name string
	}
	reqs := make([][][]reqT, G)
	for g := 0; g < G; g++ {
		gr := prng.New(seeds[g])
		for i := 0; i < iters; i++ {
			for _, f := range fs {
				f.count = []int{0, 1, 1, 2, 3}[gr.Intn(5)]
			}
			in := encodeLz(gr, fs)
			if gr.Chance(1, 8) && len(in) > 1 {
				// a malformed input now and then: a well-formed prefix, then a key without a value; the
				// failed pass must not leave anything behind for whoever gets the pooled object next
				in = append(append([]byte{}, in...), 0x08)
			}
			if gr.Chance(1, 10) {
				// well-formed at the top level, but the last occurrence of a repeated nested field is damaged:
				// Decode succeeds, NestedResults decodes the good occurrences and then fails
				if bad, ok := nestedCorruptInput(gr, def, fs, in); ok {
					if _, ok := refParse(in); ok {
						in = bad
					}
				}
			}
			inputs[g] = append(inputs[g], in)
			var rq []reqT
			for k := 0; k < 4; k++ {
				rq = append(rq, reqT{genLzPath(gr, def, fs), accNames[gr.Intn(len(accNames))]})
			}
			// ... and up to 4 of the paths that descend into nested messages, the deepest ones first in line
			for k := 0; k < 4 && len(deepPaths) > 0; k++ {
				p := deepPaths[gr.Intn(len(deepPaths))]
				if q := deepPaths[gr.Intn(len(deepPaths))]; len(q) > len(p) {
					p = q
				}
				rq = append(rq, reqT{p, []string{"Bytess", "UInt64s", "Fixed32s", "Strings", "Fixed64s", accNames[gr.Intn(len(accNames))]}[gr.Intn(6)]})
			}
			reqs[g] = append(reqs[g], rq)
		}
	}
	desc := fmt.Sprintf("G=%d procs=%d %s def=%s", G, procs, opt, def.String())
	c.Journal("C15 " + desc)
	obs := make([][]concObs, G)
	// values handed out in safe mode stay the goroutine's own after Close ("new slices for any returned field
	// data results"): each goroutine keeps what it was given and looks at it again after it — and the other
	// goroutines — have decoded further messages with the recycled results
	type heldC struct {
		what string
		live interface{}
		want string // the reply rendered when the value was handed out
	}
	heldLeft := make([][]heldC, G)
	var wg sync.WaitGroup
	for g := 0; g < G; g++ {
		wg.Add(1)
		go func(g int) {
			defer wg.Done()
			defer func() {
				if x := recover(); x != nil {
					obs[g] = append(obs[g], concObs{desc: desc, viol: &fw.Violation{Stream: "shared", Signature: "conc/panic", What: fmt.Sprintf("goroutine %d panicked: %v", g, x), Input: desc}})
				}
			}()
			var held []heldC
			heldViolated := false
			keep := func(what string, got string, live interface{}) {
				if fast || live == nil {
					return
				}
				switch live.(type) {
				case bool, uint32, int32, uint64, int64, float32, float64:
					return // plain values cannot change
				}
				held = append(held, heldC{what, live, got})
			}
			checkHeld := func(when string) {
				for _, h := range held {
					if now := renderAccValue(h.live); now != h.want && !heldViolated {
						heldViolated = true
						obs[g] = append(obs[g], concObs{desc: desc, viol: &fw.Violation{Stream: "shared", Signature: "conc/held-value-changed",
							What:  fmt.Sprintf("goroutine %d: a value handed out in safe mode changed after the result was closed and further messages were decoded (%s)", g, when),
							Input: fmt.Sprintf("%s value=%s", desc, h.what), Expected: trunc(h.want, 200), Got: trunc(now, 200)}})
					}
				}
				if len(held) > 48 {
					held = append([]heldC{}, held[len(held)-48:]...)
				}
			}
			// a result together with the observation that is completed when it is closed
			type openRes struct {
				res    *lazyproto.DecodeResult
				in     []byte
				o      concObs
				rq, rp []string
				again  []reqT
			}
			finish := func(p *openRes, overlapped bool) {
				for _, q := range p.again { // the result was kept open while another message was decoded and read
					got, live := accessPathV(p.res, q.path, q.name)
					p.rq = append(p.rq, fmt.Sprintf("acc 0 %s %s", pathString(q.path), q.name))
					p.rp = append(p.rp, got)
					if want, ok := refPathAnswer(p.in, def, q.path, q.name); ok && want != got && p.o.viol == nil {
						p.o.viol = &fw.Violation{Stream: "shared", Signature: "conc/foreign-value-in-result-kept-open/" + q.name,
							What:  fmt.Sprintf("goroutine %d kept a result open while it decoded and read the next message with the same Decoder; the older result then exposed a value that is not its own input's", g),
							Input: fmt.Sprintf("%s input=%s path=%s", desc, hexs(p.in), pathString(q.path)), Expected: trunc(want, 200), Got: trunc(got, 200)}
					}
					keep(fmt.Sprintf("%s(%s) of input %s", q.name, pathString(q.path), trunc(hexs(p.in), 200)), got, live)
				}
				p.res.Close()
				p.o.req, p.o.rep = strings.Join(p.rq, " ; "), strings.Join(p.rp, " ; ")
				obs[g] = append(obs[g], p.o)
			}
			var prev *openRes
			for i, in := range inputs[g] {
				in0 := in
				data := append([]byte{}, in...)
				res, err := dec.Decode(data)
				rq := []string{fmt.Sprintf("L 1 %s", def.String()), fmt.Sprintf("decode 0 %s new:0", hexs(in))}
				var rp []string
				switch {
				case err != nil:
					rp = append(rp, "err")
				case res == nil:
					rp = append(rp, "nil")
				default:
					rp = append(rp, "ok")
				}
				o := concObs{desc: desc, size: len(in)}
				if err == nil {
					for k, q := range reqs[g][i] {
						if k == 1 {
							runtime.Gosched()
						}
						got, live := accessPathV(res, q.path, q.name)
						rq = append(rq, fmt.Sprintf("acc 0 %s %s", pathString(q.path), q.name))
						rp = append(rp, got)
						if want, ok := refPathAnswer(in, def, q.path, q.name); ok && want != got && o.viol == nil {
							o.viol = &fw.Violation{Stream: "shared", Signature: "conc/foreign-value/" + q.name,
								What:  fmt.Sprintf("goroutine %d observed a value that is not its own input's", g),
								Input: fmt.Sprintf("%s input=%s path=%s", desc, hexs(in), pathString(q.path)), Expected: trunc(want, 200), Got: trunc(got, 200)}
						}
						keep(fmt.Sprintf("%s(%s) of input %s", q.name, pathString(q.path), trunc(hexs(in), 200)), got, live)
					}
					// explicit nested results at every level of the definition (NestedResult of a NestedResult of ...),
					// closed by the client before the root (documented as a no-op)
					var descend func(res *lazyproto.DecodeResult, in []byte, d *lzDef, trail string)
					descend = func(res *lazyproto.DecodeResult, in []byte, d *lzDef, trail string) {
						for _, e := range d.entries {
							if e.sub == nil || e.key < 0 {
								continue
							}
							if n, nerr := res.NestedResult(e.key); nerr == nil && n != nil {
								here := fmt.Sprintf("%sNestedResult(%d)", trail, e.key)
								if payload, ok := lastPayload(in, e.key); ok {
									for _, se := range e.sub.entries {
										if se.sub != nil || se.key < 0 {
											continue
										}
										got, live := accessPathV(n, []int{se.key}, "Bytess")
										if want, ok := refPathAnswer(payload, e.sub, []int{se.key}, "Bytess"); ok && want != got && o.viol == nil {
											o.viol = &fw.Violation{Stream: "shared", Signature: "conc/foreign-value/nested-result",
												What:  fmt.Sprintf("goroutine %d observed, in a nested result, a value that is not its own input's", g),
												Input: fmt.Sprintf("%s input=%s nested=%s tag=%d", desc, hexs(in0), here, se.key), Expected: trunc(want, 200), Got: trunc(got, 200)}
										}
										keep(fmt.Sprintf("%s.Bytess(%d) of input %s", here, se.key, trunc(hexs(in0), 200)), got, live)
									}
									descend(n, payload, e.sub, here+".")
								}
								n.Close()
							}
						}
					}
					descend(res, in, def, "")
					// all occurrences of every nested tag, each result compared with its own occurrence's bytes
					for _, e := range def.entries {
						if e.sub == nil || e.key < 0 {
							continue
						}
						nrs, nerr := res.NestedResults(e.key)
						if nerr != nil {
							continue
						}
						payloads := allPayloads(in, e.key)
						for j, n := range nrs {
							if n == nil || j >= len(payloads) {
								continue
							}
							for _, se := range e.sub.entries {
								if se.sub != nil || se.key < 0 {
									continue
								}
								for _, name := range []string{"Bytess", "UInt64s", "Fixed32s", "Strings", "Bytes"} {
									got, live := accessPathV(n, []int{se.key}, name)
									if want, ok := refPathAnswer(payloads[j], e.sub, []int{se.key}, name); ok && want != got && o.viol == nil {
										o.viol = &fw.Violation{Stream: "shared", Signature: "conc/foreign-value/nested-results",
											What:  fmt.Sprintf("goroutine %d observed, in element %d of NestedResults, a value that is not its own input's", g, j),
											Input: fmt.Sprintf("%s input=%s nested=%d tag=%d accessor=%s", desc, hexs(in), e.key, se.key, name), Expected: trunc(want, 200), Got: trunc(got, 200)}
									}
									keep(fmt.Sprintf("NestedResults(%d)[%d].%s(%d) of input %s", e.key, j, name, se.key, trunc(hexs(in), 200)), got, live)
								}
							}
						}
					}
				}
				// the previous result, if it was kept open across this iteration: read it again, close it
				if prev != nil {
					finish(prev, true)
					prev = nil
				}
				if err == nil && res != nil {
					cur := &openRes{res: res, in: in, o: o, rq: rq, rp: rp}
					if i%4 == 2 && i+1 < len(inputs[g]) {
						cur.again = reqs[g][i] // two results of the shared Decoder alive in this goroutine during the next iteration
						prev = cur
					} else {
						finish(cur, false)
					}
				} else {
					o.req, o.rep = strings.Join(rq, " ; "), strings.Join(rp, " ; ")
					obs[g] = append(obs[g], o)
				}
				if i%3 == 1 {
					runtime.Gosched() // the results are back in the pool: let the others decode with them
				}
				checkHeld(fmt.Sprintf("looked at after iteration %d", i))
			}
			if prev != nil {
				finish(prev, true)
			}
			checkHeld("looked at when the goroutine had finished")
			heldLeft[g] = held
		}(g)
	}
	wg.Wait()
	heldCount := 0
	for g := range heldLeft {
		heldCount += len(heldLeft[g])
		for _, h := range heldLeft[g] {
			if now := renderAccValue(h.live); now != h.want {
				obs[g] = append(obs[g], concObs{desc: desc, viol: &fw.Violation{Stream: "shared", Signature: "conc/held-value-changed",
					What:  fmt.Sprintf("goroutine %d: a value handed out in safe mode changed after the result was closed and further messages were decoded (looked at after all goroutines had finished)", g),
					Input: fmt.Sprintf("%s value=%s", desc, h.what), Expected: trunc(h.want, 200), Got: trunc(now, 200)}})
				break
			}
		}
	}
	c.Extra["values_held_across_close_at_round_end"] = intOf(c.Extra["values_held_across_close_at_round_end"]) + heldCount
	for g := range obs {
		for _, o := range obs[g] {
			if o.viol != nil {
				c.Violate(*o.viol)
			}
			if o.req != "" {
				// by C14 a recycled object is indistinguishable from a new one: the model is asked with `new`
				c.Model("shared", o.req, o.rep)
				c.Count("shared", o.req, fmt.Sprintf("G=%d/procs=%d", G, procs), o.size, o.size > 0)
			}
		}
	}
}

func runRace(c *fw.Ctx, bin string, args ...string) {
	cmd := exec.Command(bin, args...)
	// atexit_sleep_ms=0: racecheck waits for all its goroutines itself, the detector's one-second grace period
	// before exit would only be paid once per process (and there are many short "cold start" processes)
	cmd.Env = append(os.Environ(), "GORACE=halt_on_error=1 exitcode=66 atexit_sleep_ms=0")
	out, err := cmd.CombinedOutput()
	desc := "racecheck " + strings.Join(args, " ")
	c.Journal("C15 " + desc)
	outcome := "clean"
	if err != nil {
		outcome = "failed"
		sig := "conc/race-detector"
		what := "the Go race detector reported a data race while goroutines shared one lazy Decoder"
		if !strings.Contains(string(out), "DATA RACE") {
			sig, what = "conc/mismatch-under-race-build", "a goroutine observed values that are not its own input's (race-enabled build)"
		}
		c.Violate(fw.Violation{Stream: "race-detector", Signature: sig, What: what, Input: desc, Got: trunc(string(out), 3000)})
	}
	c.Count("race-detector", desc, outcome, len(args), true)
}

func runC15(c *fw.Ctx) int {
	c.Facts = extractFacts(c)
	c.Prove("C15")
	rounds, iters := 30, 40
	if c.Tier == "thorough" {
		rounds, iters = 600, 150
	}
	for i := 0; i < rounds; i++ {
		G := []int{2, 3, 4, 8, 16, 64}[c.Rng.Intn(6)]
		procs := []int{1, 2, 16}[c.Rng.Intn(3)]
		sharedRound(c, G, iters, procs)
		if i%20 == 19 {
			c.FlushModel()
		}
	}
	// supporting evidence: the same kind of workload under the race detector
	scratch, err := os.MkdirTemp(filepath.Join(fw.VerifDir, ".cache"), "c15-")
	if err == nil {
		defer os.RemoveAll(scratch)
		bin := filepath.Join(scratch, "racecheck")
		build := exec.Command("go", "build", "-race", "-tags", "verif", "-o", bin, "./cmd/racecheck")
		build.Dir = filepath.Join(fw.VerifDir, "harness")
		t0 := time.Now()
		if out, err := build.CombinedOutput(); err != nil {
			c.Notes = append(c.Notes, "race-enabled build not available: "+trunc(string(out), 200))
		} else {
			c.Extra["race_build_s"] = time.Since(t0).Seconds()
			// steady state: about the same number of decode/read/close iterations in every configuration
			total := 6000
			if c.Tier == "thorough" {
				total = 180000
			}
			for _, a := range []struct {
				g    int
				args []string
			}{{8, []string{"-procs", "16", "-filter", "neg"}}, {64, []string{"-procs", "2", "-fast"}}, {4, []string{"-procs", "1", "-maxbuf", "1", "-filter", "mixed"}}, {16, []string{"-procs", "16", "-fast", "-maxbuf", "0"}}, {16, []string{"-procs", "4", "-maxbuf", "0", "-filter", "half"}}} {
				runRace(c, bin, append([]string{"-g", fmt.Sprint(a.g), "-n", fmt.Sprint(total / a.g), "-seed", fmt.Sprint(c.Seed)}, a.args...)...)
			}
			// cold starts: state that is initialised lazily on first use (package-level caches, once-only set-up) is
			// only written during the first moments of a process, so many short processes are started in which all
			// goroutines begin — released by one barrier — with the full sweep over accessors, wire types and error paths
			colds := 12
			if c.Tier == "thorough" {
				colds = 120
			}
			for k := 0; k < colds; k++ {
				g := []int{2, 3, 4, 8, 16, 64}[k%6]
				procs := []int{16, 2, 4, 1}[(k/2)%4]
				a := []string{"-cold", "-g", fmt.Sprint(g), "-n", "3", "-procs", fmt.Sprint(procs), "-seed", fmt.Sprint(c.Seed*1000 + uint64(k))}
				if k%3 == 1 {
					a = append(a, "-fast")
				}
				if k%4 == 3 {
					a = append(a, "-maxbuf", "1")
				}
				if k%5 == 2 {
					a = append(a, "-filter", []string{"neg", "zero", "mixed"}[(k/5)%3])
				}
				runRace(c, bin, a...)
			}
		}
	}
	if c.Tier == "thorough" {
		c.LeanChecker("C15")
	}
	return c.Finish(
		"shared: G in {2,3,4,8,16,64} goroutines x GOMAXPROCS in {1,2,16} sharing one Decoder (random definition - two rounds in three one that descends 3 or 4 message levels, root -> nested -> nested-in-nested -; safe/fast x max buffer x buffer filter, every combination as in C14); each goroutine decodes its own distinct inputs, issues 4 random (path, accessor) requests plus up to 4 requests on paths that go below the root (drawn from ALL paths of the definition tree, deeper ones preferred) with an injected yield, walks explicit NestedResult handles down every level of the definition, closes; every answer is compared with the Lean model asked with a *new* object (C14: recycling is invisible) and with a reference parse of that goroutine's own input; in safe mode every value handed out (byte slices, strings, typed slices; root results, NestedResult, NestedResults) is KEPT by the goroutine and looked at again after every later iteration, when the goroutine has finished and when all have finished (a result is recycled by whoever decodes next); every fourth result is kept OPEN while the goroutine decodes and reads its next message (two results of the shared Decoder alive in one goroutine), read again and only then closed; race-detector: a fixed-schema workload built with -race (root results and nested results down to the FOURTH message level - 3 -> 5 -> 3, read through paths, NestedResult and NestedResults of a nested result, and compared with a protowire walk of the goroutine's own input as well as with a private Decoder; buffer filter functions incl. always-negative in some configurations; varint / packed varint / fixed32 / packed fixed32 / fixed64 / string / bytes fields, a declared-but-absent tag, an undeclared tag, a nested field whose payload is sometimes damaged, malformed inputs; fixed reads of every kind of value incl. wrong-type requests, all 26 accessors on one random root tag and on one nested tag per iteration, paths, NestedResult(s), Range; safe mode: values kept across Close and re-checked for three more iterations, then overwritten by their owner, input overwritten after Decode; every fifth result kept open across the next iteration), 5 steady-state configurations + 12 short cold-start processes in which all goroutines are released by one barrier and begin with the sweep of all 26 accessors over every tag (every wire type, absent, undeclared; root and nested), so that error paths are taken concurrently from the first operations of a process on; non-trivial = non-empty input",
		append(trustedCommon, "sync.Pool: Put happens-before the Get that returns the same object; an object is handed to one getter at a time", "the Go race detector (supporting evidence only)"),
		[]string{"PARTIAL: data-race freedom in the sense of the Go memory model cannot be exhibited by the Lean model; the model proves the ownership discipline (exclusive ownership between Get and Put under every interleaving, conflicting accesses ordered by Put/Get, shared tables written only by constructors — the latter bridged to a regenerated table of all field writes in lazyproto)"})
}
