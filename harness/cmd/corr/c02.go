package main

import (
	"bytes"
	"fmt"

	"github.com/CrowdStrike/csproto"
	"google.golang.org/protobuf/encoding/protowire"

	"csverif/internal/fw"
)

func init() { props["C02"] = runC02 }

// refEncode produces the canonical wire encoding of the field with the independent reference
// implementation (google.golang.org/protobuf/encoding/protowire).
func refEncode(op encOp) []byte {
	var b []byte
	num := protowire.Number(op.tag)
	switch op.name {
	case "bool", "varint":
		b = protowire.AppendTag(b, num, protowire.VarintType)
		b = protowire.AppendVarint(b, op.u)
	case "zz32", "zz64":
		b = protowire.AppendTag(b, num, protowire.VarintType)
		b = protowire.AppendVarint(b, protowire.EncodeZigZag(op.i))
	case "f32":
		b = protowire.AppendTag(b, num, protowire.Fixed32Type)
		b = protowire.AppendFixed32(b, uint32(op.u))
	case "f64":
		b = protowire.AppendTag(b, num, protowire.Fixed64Type)
		b = protowire.AppendFixed64(b, op.u)
	case "bytes":
		b = protowire.AppendTag(b, num, protowire.BytesType)
		b = protowire.AppendBytes(b, op.b)
	default:
		var body []byte
		switch op.name {
		case "pbool":
			for _, v := range op.bs {
				body = protowire.AppendVarint(body, protowire.EncodeBool(v))
			}
		case "pvarint":
			for _, v := range op.us {
				body = protowire.AppendVarint(body, v)
			}
		case "pzz32", "pzz64":
			for _, v := range op.is {
				body = protowire.AppendVarint(body, protowire.EncodeZigZag(v))
			}
		case "pf32":
			for _, v := range op.us {
				body = protowire.AppendFixed32(body, uint32(v))
			}
		case "pf64":
			for _, v := range op.us {
				body = protowire.AppendFixed64(body, v)
			}
		}
		if len(body) == 0 {
			return nil
		}
		b = protowire.AppendTag(b, num, protowire.BytesType)
		b = protowire.AppendBytes(b, body)
	}
	return b
}

func encVsRef(c *fw.Ctx, k kind, tag int, v wval) []byte {
	op := k.enc(tag, v)
	ref := refEncode(op)
	desc := fmt.Sprintf("%s tag=%d %s", k.name, tag, trunc(op.String(), 200))
	c.Journal("C02 enc " + desc)
	req, reply, panicked, buf, off := runEncProgram(len(ref), []encOp{op})
	c.Model("enc-vs-ref", req, reply)
	outcome := "identical"
	if panicked || off != len(ref) || !bytes.Equal(buf, ref) {
		outcome = "differs"
		got := "panic"
		if !panicked {
			got = fmt.Sprintf("%s (cursor %d)", hexs(buf), off)
		}
		c.Violate(fw.Violation{Stream: "enc-vs-ref", Signature: "encode/" + k.name + "/not-canonical",
			What: "encoder bytes differ from the reference's canonical encoding", Input: desc, Expected: trunc(hexs(ref), 300), Got: trunc(got, 300)})
	}
	c.Count("enc-vs-ref", desc, outcome, len(ref), len(ref) > 2)
	return ref
}

func decOnRef(c *fw.Ctx, k kind, tag int, v wval, ref []byte, fast bool) {
	if len(ref) == 0 {
		return
	}
	desc := fmt.Sprintf("%s tag=%d fast=%v bytes=%s", k.name, tag, fast, trunc(hexs(ref), 200))
	c.Journal("C02 dec " + desc)
	in := append(append([]byte{}, ref...), c.Rng.Bytes(c.Rng.Intn(3))...)
	rq, rp, results, offsets := runDecProgram(fast, in, []decOp{{name: "tag"}, {name: k.decOp}})
	reportHeld(c, "dec-on-ref")
	c.ModelCmp("dec-on-ref", rq, rp, stripAlloc)
	outcome := "ok"
	wantTag := fmt.Sprintf("t%d/%d", tag, k.wt)
	switch {
	case len(results) < 2 || !results[0].ok || results[0].item != wantTag:
		outcome = "tag-mismatch"
		c.Violate(fw.Violation{Stream: "dec-on-ref", Signature: "decode/tag/" + tagClass(tag), What: "DecodeTag rejected or mis-read a key the reference emits", Input: desc, Expected: wantTag, Got: trunc(rp, 200)})
	case !results[1].ok || results[1].item != k.item(v):
		outcome = "value-mismatch"
		c.Violate(fw.Violation{Stream: "dec-on-ref", Signature: "decode/" + k.name + "/value", What: "decoder did not return the reference's value for a conforming encoding", Input: desc, Expected: trunc(k.item(v), 200), Got: trunc(rp, 200)})
	case offsets[1] != len(ref):
		outcome = "consumed-mismatch"
		c.Violate(fw.Violation{Stream: "dec-on-ref", Signature: "decode/" + k.name + "/consumed", What: "decoder did not consume exactly the field", Input: desc, Expected: fmt.Sprint(len(ref)), Got: fmt.Sprint(offsets[1])})
	}
	c.Count("dec-on-ref", desc, outcome, len(ref), len(ref) > 2)
}

// skipWalk builds a message out of reference-encoded fields, walks it with DecodeTag+Skip and
// checks every skipped slice against the field boundaries the reference parser finds.
func skipWalk(c *fw.Ctx, ks []kind, nFields int, fast bool) {
	var msg []byte
	var bounds [][2]int
	for i := 0; i < nFields; i++ {
		k := ks[c.Rng.Intn(len(ks))]
		ref := refEncode(k.enc(genTag(c.Rng), k.gen(c.Rng)))
		if len(ref) == 0 {
			continue
		}
		bounds = append(bounds, [2]int{len(msg), len(msg) + len(ref)})
		msg = append(msg, ref...)
	}
	c.Journal(fmt.Sprintf("C02 skip fast=%v %s", fast, trunc(hexs(msg), 3000)))
	// reference boundaries, independently of how the message was built
	var refBounds [][2]int
	for off := 0; off < len(msg); {
		_, _, n := protowire.ConsumeField(msg[off:])
		if n < 0 {
			c.BrokenProof = append(c.BrokenProof, "harness: reference rejected its own encoding")
			return
		}
		refBounds = append(refBounds, [2]int{off, off + n})
		off += n
	}
	d := csproto.NewDecoder(msg)
	if fast {
		d.SetMode(csproto.DecoderModeFast)
	}
	var ops []decOp
	var concat []byte
	var visited [][3]int // tag, wire type, offset of the value
	outcome := "ok"
	i := 0
	for d.More() {
		tagRes := decCall(d, decOp{name: "tag"})
		ops = append(ops, decOp{name: "tag"})
		if !tagRes.ok {
			outcome = "tag-error"
			c.Violate(fw.Violation{Stream: "skip-walk", Signature: "skip/tag-error", What: "DecodeTag failed inside a conforming message", Input: hexs(msg), Got: tagRes.reply})
			break
		}
		var t, w int
		fmt.Sscanf(tagRes.item, "t%d/%d", &t, &w)
		op := decOp{name: "skip", a: int64(t), b: int64(w)}
		ops = append(ops, op)
		r := decCall(d, op)
		if !r.ok || i >= len(refBounds) {
			outcome = "skip-error"
			c.Violate(fw.Violation{Stream: "skip-walk", Signature: fmt.Sprintf("skip/error/wt%d", w), What: "Skip failed on a conforming field", Input: hexs(msg), Got: r.reply})
			break
		}
		want := msg[refBounds[i][0]:refBounds[i][1]]
		got := r.item[1:]
		if got != hexs(want) || d.Offset() != refBounds[i][1] {
			outcome = "skip-mismatch"
			c.Violate(fw.Violation{Stream: "skip-walk", Signature: fmt.Sprintf("skip/slice/wt%d", w), What: "Skip did not return exactly the field's raw encoding / did not land on the next field",
				Input: hexs(msg), Expected: fmt.Sprintf("%s then offset %d", hexs(want), refBounds[i][1]), Got: fmt.Sprintf("%s then offset %d", got, d.Offset())})
			break
		}
		concat = append(concat, want...)
		visited = append(visited, [3]int{t, w, refBounds[i][0] + rawVarintLen(msg[refBounds[i][0]:])})
		i++
	}
	// the same decoder revisits fields it has passed: Seek to where a field's VALUE starts (what a caller that kept the
	// offset after DecodeTag does), then Skip with that field's tag and wire type — still the whole field, whatever key
	// the decoder read last
	for rv := 0; outcome == "ok" && rv < 3 && len(visited) > 1; rv++ {
		j := c.Rng.Intn(len(visited))
		sk := decOp{name: "seek", a: int64(visited[j][2]), b: 0}
		op := decOp{name: "skip", a: int64(visited[j][0]), b: int64(visited[j][1])}
		ops = append(ops, sk, op)
		decCall(d, sk)
		r := decCall(d, op)
		want := msg[refBounds[j][0]:refBounds[j][1]]
		if !r.ok || r.item[1:] != hexs(want) || d.Offset() != refBounds[j][1] {
			outcome = "revisit-mismatch"
			c.Violate(fw.Violation{Stream: "skip-walk", Signature: fmt.Sprintf("skip/revisit/wt%d", visited[j][1]), What: "Skip after Seek to the value of an earlier field did not return exactly that field's raw encoding",
				Input: fmt.Sprintf("%s seek %d skip %d %d", hexs(msg), visited[j][2], visited[j][0], visited[j][1]), Expected: fmt.Sprintf("%s then offset %d", hexs(want), refBounds[j][1]), Got: fmt.Sprintf("%s then offset %d", r.reply, d.Offset())})
		}
	}
	if outcome == "ok" && !bytes.Equal(concat, msg) {
		outcome = "concat-mismatch"
		c.Violate(fw.Violation{Stream: "skip-walk", Signature: "skip/concat", What: "concatenating skipped fields does not reproduce the input", Input: hexs(msg)})
	}
	rq, rp, _, _ := runDecProgram(fast, msg, ops)
	reportHeld(c, "skip-walk")
	c.ModelCmp("skip-walk", rq, rp, stripAlloc)
	c.Count("skip-walk", hexs(msg), outcome, len(msg), len(refBounds) >= 2)
	if c.Rng.Intn(300) == 0 {
		c.Sample(map[string]interface{}{"stream": "skip-walk", "fields": len(refBounds), "message": trunc(hexs(msg), 120)})
	}
}

// encSeqVsRef writes a whole message — 2-8 fields, field numbers drawn from a pool of two or three so that the
// same number comes back with the same and with a DIFFERENT kind (a repeated field written unpacked and packed,
// a field read under two schemas) — through ONE Encoder and compares with the concatenation of the reference's
// encodings of the fields: whatever the encoder keeps between calls must not show in the bytes.
func encSeqVsRef(c *fw.Ctx, all []kind) {
	const stream = "enc-seq-vs-ref"
	pool := make([]int, 2+c.Rng.Intn(2))
	for i := range pool {
		pool[i] = genTag(c.Rng)
	}
	var ops []encOp
	var ref []byte
	var names []string
	n := 2 + c.Rng.Intn(7)
	for i := 0; i < n; i++ {
		k := all[c.Rng.Intn(len(all))]
		op := k.enc(pool[c.Rng.Intn(len(pool))], k.gen(c.Rng))
		ops = append(ops, op)
		ref = append(ref, refEncode(op)...)
		names = append(names, fmt.Sprintf("%s@%d", k.name, op.tag))
	}
	desc := fmt.Sprintf("one encoder: %v", names)
	c.Journal("C02 encseq " + desc)
	req, reply, panicked, buf, off := runEncProgram(len(ref), ops)
	c.Model(stream, req, reply)
	outcome := "identical"
	if panicked || off != len(ref) || !bytes.Equal(buf, ref) {
		outcome = "differs"
		got := "panic"
		if !panicked {
			got = fmt.Sprintf("%s (cursor %d)", hexs(buf), off)
		}
		c.Violate(fw.Violation{Stream: stream, Signature: "encode/sequence/not-canonical",
			What: "a sequence of fields written by one Encoder differs from the concatenation of the reference's canonical encodings", Input: trunc(req, 600), Expected: trunc(hexs(ref), 400), Got: trunc(got, 400)})
	}
	c.Count(stream, req, outcome, len(ref), len(ops) > 1)
}

func specVsRef(c *fw.Ctx, n int) {
	r := c.Rng.Fork()
	for i := 0; i < n; i++ {
		v := r.U64Interesting()
		b := protowire.AppendVarint(nil, v)
		c.Model("spec-vs-ref", "S canon "+hexs(b), fmt.Sprintf("canon %d", v))
		// non-minimal form of the same value
		if len(b) < 10 {
			nb := append([]byte{}, b...)
			nb[len(nb)-1] |= 0x80
			nb = append(nb, 0)
			rv, rn := protowire.ConsumeVarint(nb)
			if rn == len(nb) {
				c.Model("spec-vs-ref", "S canon "+hexs(nb), fmt.Sprintf("noncanon %d", rv))
			}
		}
		c.Model("spec-vs-ref", fmt.Sprintf("S twos %d", int64(v)), fmt.Sprint(v))
		c.Model("spec-vs-ref", fmt.Sprintf("S zz %d", int64(v)), fmt.Sprint(protowire.EncodeZigZag(int64(v))))
		tag := genTag(r)
		wt := []int{0, 1, 2, 5}[r.Intn(4)]
		c.Model("spec-vs-ref", fmt.Sprintf("S key %d %d", tag, wt), fmt.Sprint(protowire.EncodeTag(protowire.Number(tag), protowire.Type(wt))))
		c.Model("spec-vs-ref", "S le "+hexs(protowire.AppendFixed64(nil, v)), fmt.Sprint(v))
		c.Model("spec-vs-ref", "S le "+hexs(protowire.AppendFixed32(nil, uint32(v))), fmt.Sprint(uint32(v)))
		c.Count("spec-vs-ref", fmt.Sprint(v), "ok", len(b), v >= 128)
	}
}

func runC02(c *fw.Ctx) int {
	c.Facts = extractFacts(c)
	c.Prove("C02")
	n := 2500
	if c.Tier == "thorough" {
		n = 120000
	}
	specVsRef(c, n/2)
	c.FlushModel()
	if len(c.Disagreements) > 0 {
		// the Lean *specification* disagrees with the reference: the spec is wrong, not the code
		c.BrokenProof = append(c.BrokenProof, "spec-vs-reference: Lean Spec.* disagrees with protowire (the specification, not csproto, is indicted)")
	}
	sk, pk := scalarKinds(), packedKinds()
	all := append(append([]kind{}, sk...), pk...)
	for _, k := range all {
		for _, tag := range interestingTags {
			v := k.gen(c.Rng)
			ref := encVsRef(c, k, tag, v)
			decOnRef(c, k, tag, v, ref, c.Rng.Bool())
		}
	}
	// packed lists whose payload crosses 16384 bytes (three-byte length prefix)
	for _, k := range pk {
		bigPackedLists(k, c.Rng, func(v wval) {
			tag := interestingTags[c.Rng.Intn(len(interestingTags))]
			ref := encVsRef(c, k, tag, v)
			decOnRef(c, k, tag, v, ref, c.Rng.Bool())
		})
	}
	c.FlushModel()
	for i := 0; i < n; i++ {
		k := all[c.Rng.Intn(len(all))]
		tag, v := genTag(c.Rng), k.gen(c.Rng)
		ref := encVsRef(c, k, tag, v)
		decOnRef(c, k, tag, v, ref, c.Rng.Bool())
		if i%4 == 0 {
			skipWalk(c, all, 1+c.Rng.Intn(8), c.Rng.Bool())
			encSeqVsRef(c, all)
		}
		if i%5000 == 4999 {
			c.FlushModel()
		}
	}
	if c.Tier == "thorough" {
		c.LeanChecker("C02")
	}
	return c.Finish(
		"enc-seq-vs-ref: 2-8 fields of random kinds at two or three field numbers (so numbers repeat with the same and with a different wire type) written by ONE Encoder, compared with the concatenated reference encodings; skip-walk also revisits passed fields on the same decoder (Seek to the value, then Skip); enc-vs-ref: every scalar/packed kind encoded by csproto and by protowire (reference) on boundary-biased values and field numbers, bytes compared; dec-on-ref: the reference's bytes decoded by csproto in safe/fast mode; skip-walk: messages of 1-8 reference-encoded fields walked with DecodeTag+Skip, each slice compared with protowire.ConsumeField boundaries; spec-vs-ref: the Lean specification itself against protowire; non-trivial = distinct case longer than 2 bytes (skip-walk: at least 2 fields)",
		append(trustedCommon, "google.golang.org/protobuf/encoding/protowire as the independent reference (used by the oracle and to validate the Lean specification)"),
		[]string{"conforming = minimal varints/keys, values in range, four supported wire types; groups and non-minimal encodings are out of scope here (totality: C03)"})
}
