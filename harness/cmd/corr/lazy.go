package main

// Shared machinery for the lazyproto properties (C13, C14, C15): definition / message generators,
// an independent protowire-based reference for accessor answers, and execution of accessor calls
// on the real implementation with canonical replies.

import (
	"errors"
	"fmt"
	"math"
	"sort"
	"strconv"
	"strings"

	"github.com/CrowdStrike/csproto"
	"github.com/CrowdStrike/csproto/lazyproto"
	"google.golang.org/protobuf/encoding/protowire"

	"csverif/internal/prng"
)

// ---------- schema-free value trees ----------

type lzKind int

const (
	lzVarint lzKind = iota // one or more varint occurrences
	lzPackedVarint
	lzFixed32
	lzPackedFixed32
	lzFixed64
	lzPackedFixed64
	lzBytes
	lzMsg
)

type lzField struct {
	tag   int
	kind  lzKind
	count int        // occurrences
	sub   []*lzField // for lzMsg: the nested message's fields (same shape for every occurrence)
}

func genLzFields(r *prng.Rng, depth int) []*lzField {
	n := 1 + r.Intn(5)
	var fs []*lzField
	used := map[int]bool{}
	for i := 0; i < n; i++ {
		tag := 1 + r.Intn(7)
		if r.Chance(1, 10) {
			tag = genTag(r)
		}
		if used[tag] {
			continue
		}
		used[tag] = true
		f := &lzField{tag: tag, kind: lzKind(r.Intn(8)), count: []int{0, 1, 1, 2, 3}[r.Intn(5)]}
		if f.kind == lzMsg {
			if depth >= 3 {
				f.kind = lzBytes
			} else {
				f.sub = genLzFields(r, depth+1)
			}
		}
		fs = append(fs, f)
	}
	return fs
}

// lzTag appends the key of a field; now and then NOT minimally encoded (padded with continuation bytes), which every
// protobuf parser accepts and which makes the key longer than SizeOfTagKey(tag)
func lzTag(r *prng.Rng, b []byte, num protowire.Number, wt protowire.Type) []byte {
	if !r.Chance(1, 10) {
		return protowire.AppendTag(b, num, wt)
	}
	k := protowire.AppendTag(nil, num, wt)
	pad := 1 + r.Intn(2)
	if len(k)+pad > 10 {
		pad = 10 - len(k)
	}
	if pad <= 0 {
		return append(b, k...)
	}
	k[len(k)-1] |= 0x80
	for i := 0; i < pad-1; i++ {
		k = append(k, 0x80)
	}
	k = append(k, 0x00)
	return append(b, k...)
}

// encodeLz produces one message instance for the field list (values are random per call).
func encodeLz(r *prng.Rng, fs []*lzField) []byte {
	type piece struct{ b []byte }
	var pieces []piece
	for _, f := range fs {
		num := protowire.Number(f.tag)
		for i := 0; i < f.count; i++ {
			var b []byte
			switch f.kind {
			case lzVarint:
				b = lzTag(r, b, num, protowire.VarintType)
				b = protowire.AppendVarint(b, lzValue(r))
			case lzPackedVarint:
				var body []byte
				for j := r.Intn(4); j > 0; j-- {
					body = protowire.AppendVarint(body, lzValue(r))
				}
				b = lzTag(r, b, num, protowire.BytesType)
				b = protowire.AppendBytes(b, body)
			case lzFixed32:
				b = lzTag(r, b, num, protowire.Fixed32Type)
				b = protowire.AppendFixed32(b, uint32(r.U64Interesting()))
			case lzPackedFixed32:
				var body []byte
				for j := r.Intn(4); j > 0; j-- {
					body = protowire.AppendFixed32(body, uint32(r.U64Interesting()))
				}
				b = lzTag(r, b, num, protowire.BytesType)
				b = protowire.AppendBytes(b, body)
			case lzFixed64:
				b = lzTag(r, b, num, protowire.Fixed64Type)
				b = protowire.AppendFixed64(b, r.U64Interesting())
			case lzPackedFixed64:
				var body []byte
				for j := r.Intn(4); j > 0; j-- {
					body = protowire.AppendFixed64(body, r.U64Interesting())
				}
				b = lzTag(r, b, num, protowire.BytesType)
				b = protowire.AppendBytes(b, body)
			case lzBytes:
				b = lzTag(r, b, num, protowire.BytesType)
				b = protowire.AppendBytes(b, asciiBytes(r, []int{0, 1, 3, 9}[r.Intn(4)]))
			case lzMsg:
				b = lzTag(r, b, num, protowire.BytesType)
				var inner []byte
				if !r.Chance(1, 6) { // sometimes an empty nested message
					inner = encodeLz(r, f.sub)
				}
				b = protowire.AppendBytes(b, inner)
			}
			pieces = append(pieces, piece{b})
		}
	}
	// interleave fields (order is free on the wire), keeping it deterministic under the PRNG
	for i := len(pieces) - 1; i > 0; i-- {
		j := r.Intn(i + 1)
		pieces[i], pieces[j] = pieces[j], pieces[i]
	}
	var out []byte
	for _, p := range pieces {
		out = append(out, p.b...)
	}
	return out
}

// lzZeroKeyRecord is a record whose key carries field number 0, which no protobuf parser accepts: the key bytes
// 0x00..0x07, now and then in a spelling that is not minimal (0x81 0x00, 0x85 0x80 0x00, ...), followed by a payload
// of the announced wire type (so that the bytes after it are at a record boundary again) or by nothing.
func lzZeroKeyRecord(r *prng.Rng) []byte {
	wt := r.Intn(8)
	k := []byte{byte(wt)}
	if r.Chance(1, 4) {
		k[0] |= 0x80
		for i := r.Intn(3); i > 0; i-- {
			k = append(k, 0x80)
		}
		k = append(k, 0x00)
	}
	if r.Chance(1, 4) {
		return k
	}
	switch protowire.Type(wt) {
	case protowire.VarintType:
		k = protowire.AppendVarint(k, lzValue(r))
	case protowire.Fixed64Type:
		k = protowire.AppendFixed64(k, r.U64Interesting())
	case protowire.BytesType:
		k = protowire.AppendBytes(k, asciiBytes(r, []int{0, 1, 3, 9}[r.Intn(4)]))
	case protowire.Fixed32Type:
		k = protowire.AppendFixed32(k, uint32(r.U64Interesting()))
	default:
		k = append(k, r.Bytes(r.Intn(4))...)
	}
	return k
}

// lzSpliceRecord puts rec between two records of the well-formed message data: at a random record boundary of the
// top level (start and end included) or, one time in three when there is one, at a record boundary inside the payload
// of a length-delimited record (its length prefix is rewritten) - i.e. inside a nested message, a string or a packed run.
func lzSpliceRecord(r *prng.Rng, data, rec []byte) []byte {
	type span struct{ start, keyEnd, end int } // record = data[start:end], key = data[start:keyEnd]
	walk := func(b []byte) (bounds []int, lens []span) {
		off := 0
		bounds = append(bounds, 0)
		for off < len(b) {
			_, typ, n := protowire.ConsumeTag(b[off:])
			if n < 0 {
				return bounds, lens
			}
			m := protowire.ConsumeFieldValue(1, typ, b[off+n:])
			if m < 0 {
				return bounds, lens
			}
			if typ == protowire.BytesType {
				lens = append(lens, span{off, off + n, off + n + m})
			}
			off += n + m
			bounds = append(bounds, off)
		}
		return bounds, lens
	}
	bounds, lens := walk(data)
	if len(lens) > 0 && r.Chance(1, 3) {
		sp := lens[r.Intn(len(lens))]
		payload, _ := protowire.ConsumeBytes(data[sp.keyEnd:sp.end])
		ib, _ := walk(payload)
		at := ib[r.Intn(len(ib))]
		inner := append(append(append([]byte{}, payload[:at]...), rec...), payload[at:]...)
		out := append([]byte{}, data[:sp.keyEnd]...)
		out = protowire.AppendBytes(out, inner)
		return append(out, data[sp.end:]...)
	}
	at := bounds[r.Intn(len(bounds))]
	return append(append(append([]byte{}, data[:at]...), rec...), data[at:]...)
}

func lzValue(r *prng.Rng) uint64 {
	switch r.Intn(6) {
	case 0:
		return uint64(r.Intn(3))
	case 1:
		return uint64(int64(int32(r.U64Interesting()))) // a sign-extended int32
	case 2:
		return uint64(uint32(r.U64Interesting()))
	default:
		return r.U64Interesting()
	}
}

// ---------- definitions ----------

type lzDef struct {
	entries []lzDefEntry
}
type lzDefEntry struct {
	key int
	sub *lzDef
}

// genLzDef declares a random subset of present tags, some absent ones, negative (raw) tags and nested defs.
func genLzDef(r *prng.Rng, fs []*lzField, depth int) *lzDef {
	d := &lzDef{}
	seen := map[int]bool{}
	add := func(k int, sub *lzDef) {
		if !seen[k] {
			seen[k] = true
			d.entries = append(d.entries, lzDefEntry{k, sub})
		}
	}
	if r.Chance(1, 5) {
		// "the first n fields of the message": exactly the consecutive field numbers 1..n, present in the message or not
		// (the shape most real definitions have; the random subsets below hardly ever are one)
		byTag := map[int]*lzField{}
		for _, f := range fs {
			byTag[f.tag] = f
		}
		for k, n := 1, 1+r.Intn(7); k <= n; k++ {
			f := byTag[k]
			switch {
			case f != nil && f.kind == lzMsg && r.Chance(3, 4):
				add(k, genLzDef(r, f.sub, depth+1))
			case r.Chance(1, 8):
				add(-k, nil)
			default:
				add(k, nil)
			}
		}
		return d
	}
	for _, f := range fs {
		if r.Chance(1, 4) {
			continue // undeclared
		}
		if f.kind == lzMsg && r.Chance(3, 4) {
			add(f.tag, genLzDef(r, f.sub, depth+1))
			if r.Bool() {
				add(-f.tag, nil) // raw access as well
			}
		} else if r.Chance(1, 8) {
			add(-f.tag, nil)
		} else {
			add(f.tag, nil)
		}
	}
	for i := r.Intn(3); i > 0; i-- { // declared but absent
		add(8+r.Intn(4), nil)
	}
	if r.Chance(1, 10) { // nested declaration on a tag that is absent / not a message
		add(12, &lzDef{entries: []lzDefEntry{{1, nil}}})
	}
	return d
}

// lzDefLevels: how many message levels the definition descends (1 = the root message only, 2 = a nested
// definition, 3 = root -> nested -> nested-in-nested, ...)
func lzDefLevels(d *lzDef) int {
	n := 1
	for _, e := range d.entries {
		if e.sub != nil && e.key > 0 {
			if k := 1 + lzDefLevels(e.sub); k > n {
				n = k
			}
		}
	}
	return n
}

// lzAllPaths: every request path of the definition tree - each declared key at each level, reached through the
// nested definitions above it
func lzAllPaths(d *lzDef) [][]int {
	var out [][]int
	for _, e := range d.entries {
		out = append(out, []int{e.key})
		if e.sub != nil && e.key > 0 {
			for _, p := range lzAllPaths(e.sub) {
				out = append(out, append([]int{e.key}, p...))
			}
		}
	}
	return out
}

// genLzDeepCase: a value tree and a definition that descends at least `levels` (2..4) message levels; the value tree
// gets a chain of message-typed fields of that depth if the random one has none.
func genLzDeepCase(r *prng.Rng, levels int) (fs []*lzField, def *lzDef) {
	var chain func(fs []*lzField, depth int)
	chain = func(fs []*lzField, depth int) {
		if depth+1 >= levels || len(fs) == 0 {
			return
		}
		var msgs []*lzField
		for _, f := range fs {
			if f.kind == lzMsg {
				msgs = append(msgs, f)
			}
		}
		var f *lzField
		if len(msgs) > 0 {
			f = msgs[r.Intn(len(msgs))]
		} else {
			f = fs[r.Intn(len(fs))]
			f.kind, f.sub = lzMsg, genLzFields(r, depth+1)
		}
		if f.count == 0 {
			f.count = 1
		}
		chain(f.sub, depth+1)
	}
	for try := 0; try < 40; try++ {
		fs = genLzFields(r, 0)
		chain(fs, 0)
		def = genLzDef(r, fs, 0)
		if lzDefLevels(def) >= levels {
			break
		}
	}
	return fs, def
}

func (d *lzDef) toDef() lazyproto.Def {
	def := lazyproto.NewDef()
	for _, e := range d.entries {
		if e.sub != nil {
			def[e.key] = e.sub.toDef()
		} else {
			def[e.key] = nil
		}
	}
	return def
}

func (d *lzDef) String() string {
	parts := make([]string, len(d.entries))
	for i, e := range d.entries {
		if e.sub != nil {
			parts[i] = fmt.Sprintf("%d:%s", e.key, e.sub.String())
		} else {
			parts[i] = strconv.Itoa(e.key)
		}
	}
	return "(" + strings.Join(parts, ",") + ")"
}

func (d *lzDef) declares(tag int) bool {
	for _, e := range d.entries {
		if e.key == tag || e.key == -tag {
			return true
		}
	}
	return false
}

func (d *lzDef) nestedFor(tag int) *lzDef {
	for _, e := range d.entries {
		if (e.key == tag || e.key == -tag) && e.sub != nil {
			// the nested decoder is built from the definition under the positive key
			for _, p := range d.entries {
				if p.key == tag {
					if p.sub != nil {
						return p.sub
					}
					return &lzDef{}
				}
			}
			return &lzDef{}
		}
	}
	return nil
}

// ---------- accessors on the implementation ----------

var accNames = []string{"Bool", "Bools", "String", "Strings", "Bytes", "Bytess", "UInt32", "UInt32s", "Int32", "Int32s",
	"SInt32", "SInt32s", "UInt64", "UInt64s", "Int64", "Int64s", "SInt64", "SInt64s", "Fixed32", "Fixed32s", "Fixed64", "Fixed64s",
	"Float32", "Float32s", "Float64", "Float64s"}

func classifyLazyErr(err error) string {
	var mm *lazyproto.WireTypeMismatchError
	switch {
	case errors.Is(err, lazyproto.ErrNestingNotDefined):
		return "nnd"
	case errors.Is(err, lazyproto.ErrTagNotDefined):
		return "nd"
	case errors.Is(err, lazyproto.ErrTagNotFound):
		return "nf"
	case errors.As(err, &mm):
		return "mm"
	case errors.Is(err, csproto.ErrValueOverflow):
		return "of"
	}
	return "err"
}

func bl(b bool) string {
	if b {
		return "1"
	}
	return "0"
}

// accessorValue invokes the named accessor on fd and returns the Go value it handed out (the LIVE value:
// callers that keep it can look at it again later) or the error.
func accessorValue(fd *lazyproto.FieldData, name string) (interface{}, error) {
	switch name {
	case "Bool":
		return fd.BoolValue()
	case "Bools":
		return fd.BoolValues()
	case "String":
		return fd.StringValue()
	case "Strings":
		return fd.StringValues()
	case "Bytes":
		return fd.BytesValue()
	case "Bytess":
		return fd.BytesValues()
	case "UInt32":
		return fd.UInt32Value()
	case "UInt32s":
		return fd.UInt32Values()
	case "Int32":
		return fd.Int32Value()
	case "Int32s":
		return fd.Int32Values()
	case "SInt32":
		return fd.SInt32Value()
	case "SInt32s":
		return fd.SInt32Values()
	case "UInt64":
		return fd.UInt64Value()
	case "UInt64s":
		return fd.UInt64Values()
	case "Int64":
		return fd.Int64Value()
	case "Int64s":
		return fd.Int64Values()
	case "SInt64":
		return fd.SInt64Value()
	case "SInt64s":
		return fd.SInt64Values()
	case "Fixed32":
		return fd.Fixed32Value()
	case "Fixed32s":
		return fd.Fixed32Values()
	case "Fixed64":
		return fd.Fixed64Value()
	case "Fixed64s":
		return fd.Fixed64Values()
	case "Float32":
		return fd.Float32Value()
	case "Float32s":
		return fd.Float32Values()
	case "Float64":
		return fd.Float64Value()
	case "Float64s":
		return fd.Float64Values()
	}
	panic("harness: unknown accessor " + name)
}

// renderAccValue renders a value handed out by an accessor as the canonical reply (the Go type decides).
func renderAccValue(v interface{}) string {
	switch v := v.(type) {
	case bool:
		return "ok:b" + bl(v)
	case []bool:
		return "ok:B" + joinU(v, bl)
	case string:
		return "ok:x" + hexs([]byte(v))
	case []string:
		return "okl:" + joinU(v, func(s string) string { return hexs([]byte(s)) })
	case []byte:
		return "ok:x" + hexs(v)
	case [][]byte:
		return "okl:" + joinU(v, hexs)
	case uint32:
		return "ok:n" + u64s(uint64(v))
	case []uint32:
		return "ok:N" + joinU(v, func(x uint32) string { return u64s(uint64(x)) })
	case int32:
		return "ok:i" + i64s(int64(v))
	case []int32:
		return "ok:I" + joinU(v, func(x int32) string { return i64s(int64(x)) })
	case uint64:
		return "ok:n" + u64s(v)
	case []uint64:
		return "ok:N" + joinU(v, u64s)
	case int64:
		return "ok:i" + i64s(v)
	case []int64:
		return "ok:I" + joinU(v, i64s)
	case float32:
		return "ok:n" + u64s(uint64(math.Float32bits(v)))
	case []float32:
		return "ok:N" + joinU(v, func(x float32) string { return u64s(uint64(math.Float32bits(x))) })
	case float64:
		return "ok:n" + u64s(math.Float64bits(v))
	case []float64:
		return "ok:N" + joinU(v, func(x float64) string { return u64s(math.Float64bits(x)) })
	}
	panic(fmt.Sprintf("harness: unknown accessor value type %T", v))
}

// callAccessorV invokes the named accessor on fd; it returns the canonical reply and, when the accessor
// succeeded, the live value it handed out.
func callAccessorV(fd *lazyproto.FieldData, name string) (reply string, live interface{}) {
	defer func() {
		if r := recover(); r != nil {
			reply, live = "panic", nil
		}
	}()
	v, err := accessorValue(fd, name)
	if err != nil {
		return classifyLazyErr(err), nil
	}
	return renderAccValue(v), v
}

// callAccessor invokes the named accessor on fd and renders the canonical reply.
func callAccessor(fd *lazyproto.FieldData, name string) string {
	reply, _ := callAccessorV(fd, name)
	return reply
}

// accessPathV: FieldData(path...) then the accessor; also returns the live value handed out.
func accessPathV(res *lazyproto.DecodeResult, path []int, name string) (reply string, live interface{}) {
	defer func() {
		if r := recover(); r != nil {
			reply, live = "panic", nil
		}
	}()
	fd, err := res.FieldData(path...)
	if err != nil {
		return classifyLazyErr(err), nil
	}
	return callAccessorV(fd, name)
}

// accessPath: FieldData(path...) then the accessor.
func accessPath(res *lazyproto.DecodeResult, path []int, name string) (reply string) {
	defer func() {
		if r := recover(); r != nil {
			reply = "panic"
		}
	}()
	fd, err := res.FieldData(path...)
	if err != nil {
		return classifyLazyErr(err)
	}
	return callAccessor(fd, name)
}

// ---------- independent reference (protowire walk) ----------

type refRec struct {
	num     int
	typ     protowire.Type
	payload []byte // varint: the raw varint bytes; fixed: 4/8 bytes; bytes: the content
}

func refParse(b []byte) ([]refRec, bool) {
	var recs []refRec
	for len(b) > 0 {
		num, typ, n := protowire.ConsumeTag(b)
		if n < 0 {
			return nil, false
		}
		b = b[n:]
		var m int
		var payload []byte
		switch typ {
		case protowire.VarintType:
			_, m = protowire.ConsumeVarint(b)
			if m < 0 {
				return nil, false
			}
			payload = b[:m]
		case protowire.Fixed32Type:
			if len(b) < 4 {
				return nil, false
			}
			m, payload = 4, b[:4]
		case protowire.Fixed64Type:
			if len(b) < 8 {
				return nil, false
			}
			m, payload = 8, b[:8]
		case protowire.BytesType:
			payload, m = protowire.ConsumeBytes(b)
			if m < 0 {
				return nil, false
			}
		default:
			return nil, false
		}
		recs = append(recs, refRec{int(num), typ, payload})
		b = b[m:]
	}
	return recs, true
}

// refAnswer computes what the accessor must return for tag from the reference parse, for a
// well-formed message in which the tag uses one wire type throughout. ok=false: the reference has
// no opinion (e.g. interpreting a string as packed numbers).
func refAnswer(recs []refRec, declared bool, tag int, name string) (string, bool) {
	if !declared {
		return "nd", true
	}
	var occ []refRec
	for _, r := range recs {
		if r.num == tag {
			occ = append(occ, r)
		}
	}
	if len(occ) == 0 {
		return "nf", true
	}
	typ := occ[0].typ
	for _, o := range occ {
		if o.typ != typ {
			return "", false
		}
	}
	plural := strings.HasSuffix(name, "s") && name != "Bytes" // Bytess/Strings/… are plural
	base := strings.TrimSuffix(name, "s")
	if name == "Bytes" {
		base, plural = "Bytes", false
	}
	if name == "Bytess" {
		base, plural = "Bytes", true
	}
	var want protowire.Type
	switch base {
	case "Bool", "UInt32", "Int32", "SInt32", "UInt64", "Int64", "SInt64":
		want = protowire.VarintType
	case "Fixed32", "Float32":
		want = protowire.Fixed32Type
	case "Fixed64", "Float64":
		want = protowire.Fixed64Type
	default:
		want = protowire.BytesType
	}
	// one value of the base type from raw bytes; returns rendered value, bytes consumed, class
	one := func(b []byte) (string, int, string) {
		switch want {
		case protowire.VarintType:
			v, n := protowire.ConsumeVarint(b)
			if n < 0 {
				return "", 0, "err"
			}
			switch base {
			case "Bool":
				return bl(v != 0), n, ""
			case "UInt32":
				if v > math.MaxUint32 {
					return "", 0, "of"
				}
				return u64s(v), n, ""
			case "Int32":
				if int64(v) > math.MaxInt32 || int64(v) < math.MinInt32 {
					return "", 0, "of"
				}
				return i64s(int64(v)), n, ""
			case "SInt32":
				if v > math.MaxUint32 { // does not fit the field's value range (like Int32 / UInt32)
					return "", 0, "of"
				}
				return i64s(int64(int32(protowire.DecodeZigZag(uint64(uint32(v)))))), n, ""
			case "UInt64":
				return u64s(v), n, ""
			case "Int64":
				return i64s(int64(v)), n, ""
			default: // SInt64
				return i64s(protowire.DecodeZigZag(v)), n, ""
			}
		case protowire.Fixed32Type:
			v, n := protowire.ConsumeFixed32(b)
			if n < 0 {
				return "", 0, "err"
			}
			return u64s(uint64(v)), 4, ""
		default:
			v, n := protowire.ConsumeFixed64(b)
			if n < 0 {
				return "", 0, "err"
			}
			return u64s(v), 8, ""
		}
	}
	prefix := map[string]string{"Bool": "b", "UInt32": "n", "UInt64": "n", "Fixed32": "n", "Fixed64": "n", "Float32": "n", "Float64": "n", "Int32": "i", "SInt32": "i", "Int64": "i", "SInt64": "i"}[base]
	if !plural {
		last := occ[len(occ)-1]
		if last.typ != want {
			return "mm", true
		}
		if want == protowire.BytesType {
			return "ok:x" + hexs(last.payload), true
		}
		v, _, cls := one(last.payload)
		if cls != "" {
			return cls, true
		}
		return "ok:" + prefix + v, true
	}
	if want == protowire.BytesType {
		if typ != protowire.BytesType {
			return "mm", true
		}
		return "okl:" + joinU(occ, func(o refRec) string { return hexs(o.payload) }), true
	}
	if typ != want && typ != protowire.BytesType {
		return "mm", true
	}
	var vals []string
	for _, o := range occ {
		b := o.payload
		for len(b) > 0 {
			v, n, cls := one(b)
			if cls == "err" {
				return "", false // e.g. a string read as packed numbers: the reference has no opinion
			}
			if cls != "" {
				return cls, true
			}
			vals = append(vals, v)
			b = b[n:]
		}
	}
	lp := strings.ToUpper(prefix)
	if len(vals) == 0 {
		return "ok:" + lp + "-", true
	}
	return "ok:" + lp + strings.Join(vals, ","), true
}

// refPathAnswer walks the nested path on the reference side (last occurrence at every level).
func refPathAnswer(data []byte, def *lzDef, path []int, name string) (string, bool) {
	if len(data) == 0 {
		return "nd", true // nil result: every accessor answers not-defined
	}
	recs, ok := refParse(data)
	if !ok {
		return "", false
	}
	abs := func(x int) int {
		if x < 0 {
			return -x
		}
		return x
	}
	if len(def.entries) == 0 {
		return "nd", true
	}
	tag := abs(path[0])
	if len(path) == 1 {
		return refAnswer(recs, def.declares(tag), tag, name)
	}
	anyNested := false
	for _, e := range def.entries {
		if e.sub != nil {
			anyNested = true
		}
	}
	if !anyNested || !def.declares(tag) {
		return "nd", true
	}
	sub := def.nestedFor(tag)
	if sub == nil {
		return "nnd", true
	}
	var last *refRec
	for i := range recs {
		if recs[i].num == tag {
			last = &recs[i]
		}
	}
	if last == nil {
		return "nf", true
	}
	for _, r := range recs {
		if r.num == tag && r.typ != last.typ {
			return "", false
		}
	}
	if last.typ != protowire.BytesType {
		return "mm", true
	}
	return refPathAnswer(last.payload, sub, path[1:], name)
}

// candidate paths for a definition: declared tags, undeclared ones, nested ones
func genLzPath(r *prng.Rng, def *lzDef, fs []*lzField) []int {
	var path []int
	d := def
	for depth := 0; depth < 4; depth++ {
		if d == nil || len(d.entries) == 0 || r.Chance(1, 12) {
			path = append(path, r.Intn(13)) // 1..12 and, now and then, 0 (never declared: not a field number)
			return path
		}
		e := d.entries[r.Intn(len(d.entries))]
		if e.sub != nil && r.Chance(2, 3) {
			path = append(path, e.key)
			d = e.sub
			continue
		}
		path = append(path, e.key)
		if r.Chance(1, 10) {
			path = append(path, 1+r.Intn(4)) // descend where no nesting is declared
		}
		return path
	}
	return append(path, 1)
}

func pathString(p []int) string {
	ss := make([]string, len(p))
	for i, t := range p {
		ss[i] = strconv.Itoa(t)
	}
	return strings.Join(ss, ".")
}

func sortedKeys(m map[string]int) []string {
	ks := make([]string, 0, len(m))
	for k := range m {
		ks = append(ks, k)
	}
	sort.Strings(ks)
	return ks
}
