package main

import (
	"fmt"
	"runtime"
	"strings"

	"google.golang.org/protobuf/encoding/protowire"

	"csverif/internal/fw"
	"csverif/internal/prng"
)

func init() { props["C03"] = runC03 }

var decodeOpNames = []string{"tag", "bool", "string", "bytes", "uint32", "uint64", "int32", "int64", "sint32", "sint64",
	"fixed32", "fixed64", "float32", "float64", "pbool", "pint32", "pint64", "puint32", "puint64", "psint32", "psint64",
	"pfixed32", "pfixed64", "pfloat32", "pfloat64"}

var skipArgs = [][2]int64{{1, 0}, {1, 1}, {1, 2}, {1, 5}, {1, 3}, {1, 4}, {16, 2}, {0, 0}, {1<<29 - 1, 2}, {-1, 7}, {2, 0}, {1, -1}}

// oracleDec checks the C03 clauses on one executed program.
func oracleDec(c *fw.Ctx, stream string, fast bool, data []byte, ops []decOp, results []decResult, offsets []int) string {
	outcome := "all-err"
	prev := 0
	for i, r := range results {
		op := ops[i]
		off := offsets[i]
		sig := ""
		what := ""
		switch {
		case r.panicked:
			sig, what = "panic/"+opClass(op.name), "decoder call panicked: "+r.panicMsg
		case off < 0 || off > len(data):
			sig, what = "cursor/"+opClass(op.name), fmt.Sprintf("cursor %d outside [0,%d] after the call", off, len(data))
		case r.capCells > 2*len(data)+16:
			sig, what = "alloc/"+op.name, fmt.Sprintf("allocated %d cells for a %d-byte input", r.capCells, len(data))
		case r.ok:
			outcome = "some-ok"
			// advance = encoded length of the item, judged by the reference parser
			adv := off - prev
			rest := data[prev:]
			want := -1
			switch op.name {
			case "tag", "bool", "uint32", "uint64", "int32", "int64", "sint32", "sint64":
				want = rawVarintLen(rest)
			case "fixed32", "float32":
				want = 4
			case "fixed64", "float64":
				want = 8
			case "string", "bytes", "nested", "pbool", "pint32", "pint64", "puint32", "puint64", "psint32", "psint64", "pfixed32", "pfixed64", "pfloat32", "pfloat64":
				if n := rawVarintLen(rest); n > 0 {
					if l, k := protowire.ConsumeVarint(rest); k == n && l <= uint64(len(rest)-n) {
						want = n + int(l)
					}
				}
			}
			if want != -1 && adv != want {
				sig, what = "advance/"+opClass(op.name), fmt.Sprintf("cursor advanced by %d, the item's encoded length is %d", adv, want)
			}
			if op.name == "skip" && !strings.HasSuffix(r.item, hexs(data[prev:off])) {
				sig, what = "skip/slice", "Skip returned bytes that do not end at the cursor"
			}
		default:
			// error: a declared length beyond the input must have been the reason or not — nothing to check
		}
		if !r.ok && !r.panicked {
			// declared length exceeding the remaining input must be an error: checked from the other side
		}
		if r.ok {
			switch op.name {
			case "string", "bytes", "nested", "pfloat32":
				if l, n := protowire.ConsumeVarint(data[prev:]); n > 0 && l > uint64(len(data)-prev-n) {
					sig, what = "declared-length/"+op.name, fmt.Sprintf("declared length %d exceeds the %d remaining bytes but the call succeeded", l, len(data)-prev-n)
				}
			}
		}
		if sig != "" {
			c.Violate(fw.Violation{Stream: stream, Signature: sig, What: what,
				Input: map[string]interface{}{"mode_fast": fast, "data": hexs(data), "ops": opsString(ops[:i+1])}, Got: r.reply})
			return "violation"
		}
		prev = off
		if !r.ok && (off < 0 || off > len(data)) {
			break
		}
	}
	return outcome
}

// rawVarintLen is the length of the base-128 group string at the start of b (bytes up to and
// including the first one without continuation bit), or -1 if there is none within 10 bytes.
func rawVarintLen(b []byte) int {
	for i := 0; i < len(b) && i < 10; i++ {
		if b[i] < 0x80 {
			return i + 1
		}
	}
	return -1
}

func opClass(name string) string {
	switch {
	case name == "float32" || name == "float64" || name == "pfloat32" || name == "pfloat64":
		return "float"
	case strings.HasPrefix(name, "p"):
		return "packed"
	}
	return name
}

func opsString(ops []decOp) string {
	ss := make([]string, len(ops))
	for i, o := range ops {
		ss[i] = o.String()
	}
	return strings.Join(ss, " ; ")
}

func runAndCheck(c *fw.Ctx, stream string, fast bool, data []byte, ops []decOp) {
	c.Journal(fmt.Sprintf("C03 %s fast=%v %s | %s", stream, fast, trunc(hexs(data), 1500), trunc(opsString(ops), 2000)))
	var ms0, ms1 runtime.MemStats
	runtime.ReadMemStats(&ms0)
	rq, rp, results, offsets := runDecProgram(fast, data, ops)
	runtime.ReadMemStats(&ms1)
	// memory in proportion to the input: everything the program allocated (results, the harness's own
	// rendering of them) against a generous linear budget — a buffer sized from a declared length that the
	// input does not back blows it by orders of magnitude
	if got, budget := ms1.TotalAlloc-ms0.TotalAlloc, uint64(1<<16+4096*len(ops)+1024*len(data)); got > budget {
		c.Violate(fw.Violation{Stream: stream, Signature: "alloc/out-of-proportion", What: "a sequence of decoder calls allocated memory out of proportion to the input",
			Input: fmt.Sprintf("fast=%v data=%s ops=%s", fast, trunc(hexs(data), 400), trunc(opsString(ops), 400)), Expected: fmt.Sprintf("at most %d bytes for %d input bytes and %d calls", budget, len(data), len(ops)), Got: fmt.Sprintf("%d bytes allocated", got)})
	}
	reportHeld(c, stream)
	c.ModelCmp(stream, rq, rp, stripAlloc)
	out := oracleDec(c, stream, fast, data, ops, results, offsets)
	nOK := 0
	for _, r := range results {
		if r.ok {
			nOK++
		}
	}
	c.Count(stream, rq, out, len(data), len(data) > 0 && nOK > 0 && nOK < len(results))
}

var alphabet = []byte{0x00, 0x01, 0x02, 0x05, 0x08, 0x0a, 0x0d, 0x10, 0x12, 0x7f, 0x80, 0x81, 0xff}

func exhaustive(c *fw.Ctx, L int) {
	var rec func(cur []byte)
	each := func(data []byte) {
		for _, fast := range []bool{false, true} {
			var ops []decOp
			for k := 0; k <= len(data); k++ {
				for _, name := range decodeOpNames {
					ops = append(ops, decOp{name: "seek", a: int64(k), b: 0}, decOp{name: name})
				}
				ops = append(ops, decOp{name: "seek", a: int64(k), b: 0}, decOp{name: "nested", a: 1},
					decOp{name: "seek", a: int64(k), b: 0}, decOp{name: "nested", a: 0})
				for _, sa := range skipArgs {
					ops = append(ops, decOp{name: "seek", a: int64(k), b: 0}, decOp{name: "skip", a: sa[0], b: sa[1]})
				}
			}
			runAndCheck(c, "exhaustive", fast, data, ops)
		}
	}
	rec = func(cur []byte) {
		each(append([]byte{}, cur...))
		if len(cur) == L {
			return
		}
		for _, b := range alphabet {
			rec(append(cur, b))
		}
	}
	rec(nil)
}

// genMessage builds a mostly-valid message out of reference-encoded fields, then optionally damages it.
func genMessage(r *prng.Rng, ks []kind) []byte {
	var msg []byte
	n := r.Intn(6)
	for i := 0; i < n; i++ {
		k := ks[r.Intn(len(ks))]
		msg = append(msg, refEncode(k.enc(genTag(r), k.gen(r)))...)
		if len(msg) > 3000 {
			break
		}
	}
	switch r.Intn(8) {
	case 0: // truncate
		if len(msg) > 0 {
			msg = msg[:r.Intn(len(msg))]
		}
	case 1: // flip a byte
		if len(msg) > 0 {
			msg[r.Intn(len(msg))] ^= byte(1 << uint(r.Intn(8)))
		}
	case 2: // inflate a length / varint: set continuation bits
		if len(msg) > 0 {
			i := r.Intn(len(msg))
			for j := i; j < len(msg) && j < i+1+r.Intn(10); j++ {
				msg[j] |= 0x80
			}
		}
	case 3: // random junk
		msg = r.Bytes(r.Intn(24))
	case 4: // huge declared length
		hdr := protowire.AppendTag(nil, protowire.Number(1+r.Intn(20)), protowire.BytesType)
		hdr = protowire.AppendVarint(hdr, r.U64Interesting())
		msg = append(hdr, msg...)
	}
	return msg
}

// lengthLadder: one length-delimited field at the END of the input (and once more followed by other bytes), read by every
// reader that trusts a declared length — string, bytes, DecodeNested, the eleven packed readers, Skip — with the declared
// length stepping across what is really there (payload-1 … payload+2, i.e. also "too long by exactly the size of the
// prefix"), written minimally and padded, and with the extreme values of the 64-bit range: every 2^63-1-k and 2^64-1-k for
// small k (where cursor+length wraps around), 2^31±, 2^32±.
func lengthLadder(c *fw.Ctx) {
	readers := []decOp{{name: "string"}, {name: "bytes"}, {name: "nested", a: 1}, {name: "nested", a: 0}, {name: "skip", a: 0, b: 2},
		{name: "pbool"}, {name: "pint32"}, {name: "pint64"}, {name: "puint32"}, {name: "puint64"}, {name: "psint32"}, {name: "psint64"},
		{name: "pfixed32"}, {name: "pfixed64"}, {name: "pfloat32"}, {name: "pfloat64"}}
	var extremes []uint64
	for k := uint64(0); k <= 12; k++ {
		extremes = append(extremes, 1<<63-1-k, ^uint64(0)-k)
	}
	extremes = append(extremes, 1<<63, 1<<63+1, 1<<62, 1<<31-2, 1<<31-1, 1<<31, 1<<31+1, 1<<32-1, 1<<32, 1<<32+1)
	n := 0
	run := func(rd decOp, tag int, l uint64, payload []byte, pad bool, trail []byte) {
		data := protowire.AppendTag(nil, protowire.Number(tag), protowire.BytesType)
		lp := protowire.AppendVarint(nil, l)
		if pad && len(lp) < 10 {
			lp[len(lp)-1] |= 0x80
			lp = append(lp, 0)
		}
		data = append(append(append(data, lp...), payload...), trail...)
		if rd.name == "skip" {
			rd.a = int64(tag)
		}
		n++
		runAndCheck(c, "length-ladder", n%2 == 0, data, []decOp{{name: "tag"}, rd, {name: "offset"}, {name: "more"}})
	}
	for _, rd := range readers {
		for _, pl := range []int{0, 1, 2, 3, 4, 5, 7, 8, 9, 12, 16, 126, 127, 128, 129} {
			payload := make([]byte, pl)
			for i := range payload {
				payload[i] = byte(c.Rng.Intn(2)) // valid one-byte varints / bools, and zero bits for the fixed-width readers
			}
			for d := -1; d <= 2; d++ {
				if pl+d < 0 {
					continue
				}
				run(rd, []int{1, 16, 1 << 21}[n%3], uint64(pl+d), payload, false, nil)
				if d >= 0 && pl < 20 {
					run(rd, 2, uint64(pl+d), payload, true, nil)
					run(rd, 3, uint64(pl+d), payload, false, []byte{0x08, 0x01})
				}
			}
		}
		for _, pl := range []int{0, 3, 8} {
			for _, l := range extremes {
				run(rd, []int{1, 16}[n%2], l, c.Rng.Bytes(pl), false, nil)
			}
		}
	}
}

func genOps(r *prng.Rng, n int) []decOp {
	var ops []decOp
	for i := 0; i < n; i++ {
		switch x := r.Intn(20); {
		case x < 10:
			ops = append(ops, decOp{name: decodeOpNames[r.Intn(len(decodeOpNames))]})
		case x < 12:
			ops = append(ops, decOp{name: "tag"})
		case x < 14:
			sa := skipArgs[r.Intn(len(skipArgs))]
			if r.Bool() {
				sa = [2]int64{int64(genTag(r)), int64([]int{0, 1, 2, 5}[r.Intn(4)])}
			}
			ops = append(ops, decOp{name: "skip", a: sa[0], b: sa[1]})
		case x < 15:
			ops = append(ops, decOp{name: "nested", a: int64(r.Intn(2))})
		case x < 17:
			offs := []int64{0, 1, -1, 2, int64(r.Intn(40)), -int64(r.Intn(40)), 1<<63 - 1, -1 << 63, 1 << 62}
			ops = append(ops, decOp{name: "seek", a: offs[r.Intn(len(offs))], b: int64(r.Intn(5) - 1)})
		case x < 18:
			ops = append(ops, decOp{name: "reset"})
		case x < 19:
			ops = append(ops, decOp{name: "mode", a: int64(r.Intn(2))})
		default:
			ops = append(ops, decOp{name: []string{"more", "offset"}[r.Intn(2)]})
		}
	}
	return ops
}

// walkOps decodes a message the way a client would: tag, then the reader matching the wire type
// (or a deliberately mismatching one).
func walkOps(r *prng.Rng, n int) []decOp {
	var ops []decOp
	byWT := [][]string{{"bool", "uint32", "uint64", "int32", "int64", "sint32", "sint64"}, {"fixed64", "float64"},
		{"string", "bytes", "nested", "pbool", "pint32", "pint64", "puint32", "puint64", "psint32", "psint64", "pfixed32", "pfixed64", "pfloat32", "pfloat64"},
		{"fixed32", "float32"}}
	for i := 0; i < n; i++ {
		ops = append(ops, decOp{name: "tag"})
		g := byWT[r.Intn(4)]
		op := decOp{name: g[r.Intn(len(g))]}
		if op.name == "nested" {
			op.a = int64(r.Intn(2))
		}
		ops = append(ops, op)
	}
	return ops
}

func runC03(c *fw.Ctx) int {
	c.Facts = extractFacts(c)
	c.Prove("C03")
	L, n := 2, 4000
	if c.Tier == "thorough" {
		L, n = 4, 200000
	}
	exhaustive(c, L)
	c.FlushModel()
	lengthLadder(c)
	c.FlushModel()
	ks := append(scalarKinds(), packedKinds()...)
	for i := 0; i < n; i++ {
		msg := genMessage(c.Rng, ks)
		var ops []decOp
		if c.Rng.Bool() {
			ops = walkOps(c.Rng, 1+c.Rng.Intn(6))
		} else {
			ops = genOps(c.Rng, 1+c.Rng.Intn(12))
		}
		runAndCheck(c, "sequences", c.Rng.Bool(), msg, ops)
		if i%300 == 0 {
			c.Sample(map[string]interface{}{"stream": "sequences", "data": trunc(hexs(msg), 100), "ops": trunc(opsString(ops), 160)})
		}
		if i%5000 == 4999 {
			c.FlushModel()
		}
	}
	c.Extra["exhaustive_alphabet"] = hexs(alphabet)
	c.Extra["exhaustive_max_len"] = L
	if c.Tier == "thorough" {
		c.LeanChecker("C03")
	}
	return c.Finish(
		fmt.Sprintf("length-ladder: one length-delimited field at the end of the input (also padded prefix / trailing bytes) read by string, bytes, DecodeNested, the 11 packed readers and Skip, declared length = payload-1..payload+2 for payloads of 0..129 bytes and the extremes 2^63-1-k, 2^64-1-k (k<=12), 2^31+-, 2^32+-; exhaustive: every string of length <= %d over the wire-significant alphabet %s, each of the 25 Decode*/DecodePacked* methods, DecodeNested (succeeding and failing nested unmarshaler) and Skip with 12 argument pairs, at every offset, safe and fast mode; sequences: mostly-valid messages of reference-encoded fields damaged by truncation / bit flips / continuation-bit inflation / huge declared lengths / pure junk, driven by client-like tag+reader walks and by random op sequences (<= 12 ops incl. Seek with extreme offsets, Reset, mode switches); non-trivial = distinct non-empty input on which some calls succeed and some fail", L, hexs(alphabet)),
		append(trustedCommon, "allocation: the model counts requested cells; on the implementation cap() of the returned slice is observed (heap behaviour of the Go runtime is not modelled)"),
		[]string{"after a failed call the cursor is only required to be in [0,len]; the harness re-synchronises the model's cursor to the implementation's (theorem holds for every resync position)",
			"clause 'advances by exactly the item's encoded length' is checked by the oracle against protowire on every successful call; in Lean it is proved for conforming items (C01/C02) — for arbitrary bytes only the weaker in-range/advance statement is proved"})
}
