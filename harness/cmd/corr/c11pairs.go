package main

// C11, stream "pairs": every runtime-agnostic function against the owning runtime's own function on ARGUMENT
// PAIRS and on values the runtimes disagree about among themselves.
//
// The property says that Clone / Equal / Reset / MarshalText "give the runtime's own result".  For Equal that is a
// statement about pairs, and the three runtimes do not implement the same relation: Gogo compares float fields
// with Go's == (a message holding a NaN is not equal to itself, +0 equals -0), protobuf-go treats NaN as equal
// to NaN, nil and empty bytes / unknown fields are handled differently, ...  So the shim has no business deciding
// anything by itself: whatever pair it is handed — the very same pointer twice, a clone, a copy that went through
// the wire, a copy that differs in the sign of a zero or in the payload of a NaN, an empty message, a typed nil —
// the answer has to be the runtime's.  The stream walks every float position of a populated message (scalar,
// optional, repeated, nested, map value, oneof member) with every special value and asks both sides.

import (
	"fmt"
	"math"
	"reflect"
	"sort"
	"strings"

	"github.com/CrowdStrike/csproto"
	gogotypes "github.com/gogo/protobuf/types"
	dto "github.com/prometheus/client_model/go"
	"google.golang.org/protobuf/types/known/structpb"
	"google.golang.org/protobuf/types/known/wrapperspb"

	ex2gogo "github.com/CrowdStrike/csproto/example/proto2/gogo"
	ex2v1 "github.com/CrowdStrike/csproto/example/proto2/googlev1"
	ex2v2 "github.com/CrowdStrike/csproto/example/proto2/googlev2"
	ex3gogo "github.com/CrowdStrike/csproto/example/proto3/gogo"
	ex3v1 "github.com/CrowdStrike/csproto/example/proto3/googlev1"
	ex3v2 "github.com/CrowdStrike/csproto/example/proto3/googlev2"

	"csverif/internal/fw"
	"csverif/internal/prng"
)

// ---------- float positions of a populated message, found by reflection ----------

type floatSite struct {
	path string
	set  func(float64)
}

func exportedDataField(sf reflect.StructField) bool {
	return sf.PkgPath == "" && !strings.HasPrefix(sf.Name, "XXX_")
}

// floatSites lists every float32/float64 the message value holds right now: struct fields, pointers to scalars,
// list elements, map values, the wrapper structs of oneofs (reached through the interface-typed field), at any depth.
func floatSites(v reflect.Value, path string, out *[]floatSite, depth int) {
	if depth > 12 {
		return
	}
	switch v.Kind() {
	case reflect.Ptr, reflect.Interface:
		if !v.IsNil() {
			floatSites(v.Elem(), path, out, depth+1)
		}
	case reflect.Struct:
		for i := 0; i < v.NumField(); i++ {
			if sf := v.Type().Field(i); exportedDataField(sf) {
				floatSites(v.Field(i), path+"."+sf.Name, out, depth+1)
			}
		}
	case reflect.Slice:
		if v.Type().Elem().Kind() == reflect.Uint8 {
			return
		}
		for i := 0; i < v.Len(); i++ {
			floatSites(v.Index(i), fmt.Sprintf("%s[%d]", path, i), out, depth+1)
		}
	case reflect.Map:
		keys := v.MapKeys()
		sort.Slice(keys, func(i, j int) bool { return fmt.Sprint(keys[i].Interface()) < fmt.Sprint(keys[j].Interface()) })
		for _, k := range keys {
			k := k
			p := fmt.Sprintf("%s[%v]", path, k.Interface())
			if ek := v.Type().Elem().Kind(); ek == reflect.Float32 || ek == reflect.Float64 {
				mv := v
				*out = append(*out, floatSite{p, func(f float64) { mv.SetMapIndex(k, reflect.ValueOf(f).Convert(mv.Type().Elem())) }})
				continue
			}
			floatSites(v.MapIndex(k), p, out, depth+1)
		}
	case reflect.Float32, reflect.Float64:
		if v.CanSet() {
			vv := v
			*out = append(*out, floatSite{path, func(f float64) {
				if vv.Kind() == reflect.Float32 {
					vv.SetFloat(float64(float32FromSpecial(f)))
					return
				}
				vv.SetFloat(f)
			}})
		}
	}
}

// float32FromSpecial narrows without losing what makes the value special (a second NaN payload stays a second payload)
func float32FromSpecial(f float64) float32 {
	if f != f && math.Float64bits(f) != math.Float64bits(math.NaN()) {
		return math.Float32frombits(0x7fc00001)
	}
	return float32(f)
}

type specialFloat struct {
	name string
	v    float64
	twin float64 // what a "copy that differs only here" holds instead
}

var specialFloats = []specialFloat{
	{"NaN", math.NaN(), math.Float64frombits(0x7ff8000000000001)},
	{"NaN(payload 1)", math.Float64frombits(0x7ff8000000000001), math.NaN()},
	{"-0.0", math.Copysign(0, -1), 0},
	{"+0.0", 0, math.Copysign(0, -1)},
	{"+Inf", math.Inf(1), math.MaxFloat64},
	{"-Inf", math.Inf(-1), math.Inf(1)},
	{"smallest denormal", math.SmallestNonzeroFloat64, 0},
	{"1.5", 1.5, 1.5000000000000002},
}

// ---------- the float-bearing part of the shim corpus ----------

func f64p(v float64) *float64 { return &v }
func f32p(v float32) *float32 { return &v }

func someFloat(r *prng.Rng) float64 { return float64(int64(r.Intn(4000))-2000) / 8 }

func gogoValue(r *prng.Rng, depth int) *gogotypes.Value {
	switch k := r.Intn(5); {
	case k == 0 && depth > 0:
		return &gogotypes.Value{Kind: &gogotypes.Value_ListValue{ListValue: &gogotypes.ListValue{Values: []*gogotypes.Value{gogoValue(r, depth-1), {Kind: &gogotypes.Value_NumberValue{NumberValue: someFloat(r)}}}}}}
	case k == 1 && depth > 0:
		return &gogotypes.Value{Kind: &gogotypes.Value_StructValue{StructValue: gogoStruct(r, depth-1)}}
	case k == 2:
		return &gogotypes.Value{Kind: &gogotypes.Value_StringValue{StringValue: string(asciiBytes(r, r.Intn(6)))}}
	}
	return &gogotypes.Value{Kind: &gogotypes.Value_NumberValue{NumberValue: someFloat(r)}}
}

func gogoStruct(r *prng.Rng, depth int) *gogotypes.Struct {
	s := &gogotypes.Struct{Fields: map[string]*gogotypes.Value{"n": {Kind: &gogotypes.Value_NumberValue{NumberValue: someFloat(r)}}}}
	for i := r.Intn(3); i > 0; i-- {
		s.Fields[fmt.Sprintf("k%d", i)] = gogoValue(r, depth)
	}
	return s
}

func v2Value(r *prng.Rng, depth int) *structpb.Value {
	switch k := r.Intn(5); {
	case k == 0 && depth > 0:
		return structpb.NewListValue(&structpb.ListValue{Values: []*structpb.Value{v2Value(r, depth-1), structpb.NewNumberValue(someFloat(r))}})
	case k == 1 && depth > 0:
		return structpb.NewStructValue(v2Struct(r, depth-1))
	case k == 2:
		return structpb.NewStringValue(string(asciiBytes(r, r.Intn(6))))
	}
	return structpb.NewNumberValue(someFloat(r))
}

func v2Struct(r *prng.Rng, depth int) *structpb.Struct {
	s := &structpb.Struct{Fields: map[string]*structpb.Value{"n": structpb.NewNumberValue(someFloat(r))}}
	for i := r.Intn(3); i > 0; i-- {
		s.Fields[fmt.Sprintf("k%d", i)] = v2Value(r, depth)
	}
	return s
}

func someFloat32s(r *prng.Rng) []float32 {
	out := []float32{float32(someFloat(r))}
	for i := r.Intn(3); i > 0; i-- {
		out = append(out, float32(someFloat(r)))
	}
	return out
}

func someFloat64s(r *prng.Rng) []float64 {
	out := []float64{someFloat(r)}
	for i := r.Intn(3); i > 0; i-- {
		out = append(out, someFloat(r))
	}
	return out
}

// floatCorpus: real message types of every runtime flavour that hold float / double fields — singular, optional
// (pointer), repeated, inside nested messages, inside repeated nested messages, as map values and as oneof members.
func floatCorpus() []shimType {
	str := func(r *prng.Rng) string { return string(asciiBytes(r, r.Intn(8))) }
	return []shimType{
		{name: "gogo/fast-marshal/proto3.AllTheThings", fastM: true, ops: gogoOps, mt: 1,
			gen: func(r *prng.Rng) interface{} {
				return &ex3gogo.AllTheThings{ID: int32(r.Intn(99)), TheString: str(r), TheFloat: float32(someFloat(r)), TheDouble: someFloat(r), TheBytes: r.Bytes(r.Intn(4))}
			},
			fresh: func() interface{} { return &ex3gogo.AllTheThings{} }, mutate: func(m interface{}) { m.(*ex3gogo.AllTheThings).ID ^= 1 }},
		{name: "gogo/fast-marshal/proto3.RepeatAllTheThings", fastM: true, ops: gogoOps, mt: 1,
			gen: func(r *prng.Rng) interface{} {
				return &ex3gogo.RepeatAllTheThings{ID: int32(r.Intn(99)), TheFloats: someFloat32s(r), TheDoubles: someFloat64s(r), TheStrings: []string{str(r)}}
			},
			fresh: func() interface{} { return &ex3gogo.RepeatAllTheThings{} }, mutate: func(m interface{}) { m.(*ex3gogo.RepeatAllTheThings).ID ^= 1 }},
		{name: "gogo/fast-marshal/proto2.AllTheThings", fastM: true, ops: gogoOps, mt: 1,
			gen: func(r *prng.Rng) interface{} {
				return &ex2gogo.AllTheThings{ID: i32p(int32(r.Intn(99))), TheString: sp(str(r)), TheFloat: f32p(float32(someFloat(r))), TheDouble: f64p(someFloat(r))}
			},
			fresh: func() interface{} { return &ex2gogo.AllTheThings{} }, mutate: func(m interface{}) { m.(*ex2gogo.AllTheThings).TheString = sp("changed!") }},
		{name: "gogo/fast-marshal/proto2.RepeatAllTheThings", fastM: true, ops: gogoOps, mt: 1,
			gen: func(r *prng.Rng) interface{} {
				return &ex2gogo.RepeatAllTheThings{ID: i32p(int32(r.Intn(99))), TheFloats: someFloat32s(r), TheDoubles: someFloat64s(r)}
			},
			fresh: func() interface{} { return &ex2gogo.RepeatAllTheThings{} }, mutate: func(m interface{}) { m.(*ex2gogo.RepeatAllTheThings).ID = i32p(-7) }},
		{name: "gogo/plain/types.Struct(map values, oneof members, lists, nested)", ops: gogoOps, mt: 1,
			gen:   func(r *prng.Rng) interface{} { return gogoStruct(r, 2) },
			fresh: func() interface{} { return &gogotypes.Struct{} },
			mutate: func(m interface{}) {
				m.(*gogotypes.Struct).Fields["changed!"] = &gogotypes.Value{Kind: &gogotypes.Value_BoolValue{BoolValue: true}}
			}},
		{name: "gogo/plain/types.DoubleValue", ops: gogoOps, mt: 1,
			gen:   func(r *prng.Rng) interface{} { return &gogotypes.DoubleValue{Value: someFloat(r)} },
			fresh: func() interface{} { return &gogotypes.DoubleValue{} }, mutate: func(m interface{}) { m.(*gogotypes.DoubleValue).Value += 1 }},
		{name: "gogo/plain/types.FloatValue", ops: gogoOps, mt: 1,
			gen:   func(r *prng.Rng) interface{} { return &gogotypes.FloatValue{Value: float32(someFloat(r))} },
			fresh: func() interface{} { return &gogotypes.FloatValue{} }, mutate: func(m interface{}) { m.(*gogotypes.FloatValue).Value += 1 }},
		{name: "googlev1/plain/dto.Metric(optional doubles in nested and repeated nested messages)", ops: golangOps, mt: 2,
			gen: func(r *prng.Rng) interface{} {
				return &dto.Metric{Label: []*dto.LabelPair{{Name: sp(str(r)), Value: sp(str(r))}}, Gauge: &dto.Gauge{Value: f64p(someFloat(r))},
					Summary:   &dto.Summary{SampleCount: u64p(uint64(r.Intn(9))), SampleSum: f64p(someFloat(r)), Quantile: []*dto.Quantile{{Quantile: f64p(0.5), Value: f64p(someFloat(r))}, {Quantile: f64p(0.99), Value: f64p(someFloat(r))}}},
					Histogram: &dto.Histogram{SampleSum: f64p(someFloat(r)), Bucket: []*dto.Bucket{{CumulativeCount: u64p(3), UpperBound: f64p(someFloat(r))}}}}
			},
			fresh: func() interface{} { return &dto.Metric{} }, mutate: func(m interface{}) { x := int64(-5); m.(*dto.Metric).TimestampMs = &x }},
		{name: "googlev1/plain/dto.Gauge", ops: golangOps, mt: 2,
			gen:   func(r *prng.Rng) interface{} { return &dto.Gauge{Value: f64p(someFloat(r))} },
			fresh: func() interface{} { return &dto.Gauge{} }, mutate: func(m interface{}) { m.(*dto.Gauge).Value = f64p(12345) }},
		{name: "googlev1-api/fast-marshal/proto3.AllTheThings", fastM: true, ops: v2Ops, mt: 3,
			gen: func(r *prng.Rng) interface{} {
				return &ex3v1.AllTheThings{ID: int32(r.Intn(99)), TheString: str(r), TheFloat: float32(someFloat(r)), TheDouble: someFloat(r)}
			},
			fresh: func() interface{} { return &ex3v1.AllTheThings{} }, mutate: func(m interface{}) { m.(*ex3v1.AllTheThings).ID ^= 1 }},
		{name: "googlev1-api/fast-marshal/proto2.RepeatAllTheThings", fastM: true, ops: v2Ops, mt: 3,
			gen: func(r *prng.Rng) interface{} {
				return &ex2v1.RepeatAllTheThings{ID: i32p(int32(r.Intn(99))), TheFloats: someFloat32s(r), TheDoubles: someFloat64s(r)}
			},
			fresh: func() interface{} { return &ex2v1.RepeatAllTheThings{} }, mutate: func(m interface{}) { m.(*ex2v1.RepeatAllTheThings).ID = i32p(-7) }},
		{name: "googlev2/fast-marshal/proto3.AllTheThings", fastM: true, ops: v2Ops, mt: 3,
			gen: func(r *prng.Rng) interface{} {
				return &ex3v2.AllTheThings{ID: int32(r.Intn(99)), TheString: str(r), TheFloat: float32(someFloat(r)), TheDouble: someFloat(r)}
			},
			fresh: func() interface{} { return &ex3v2.AllTheThings{} }, mutate: func(m interface{}) { m.(*ex3v2.AllTheThings).ID ^= 1 }},
		{name: "googlev2/fast-marshal/proto3.RepeatAllTheThings", fastM: true, ops: v2Ops, mt: 3,
			gen: func(r *prng.Rng) interface{} {
				return &ex3v2.RepeatAllTheThings{ID: int32(r.Intn(99)), TheFloats: someFloat32s(r), TheDoubles: someFloat64s(r)}
			},
			fresh: func() interface{} { return &ex3v2.RepeatAllTheThings{} }, mutate: func(m interface{}) { m.(*ex3v2.RepeatAllTheThings).ID ^= 1 }},
		{name: "googlev2/fast-marshal/proto2.AllTheThings", fastM: true, ops: v2Ops, mt: 3,
			gen: func(r *prng.Rng) interface{} {
				return &ex2v2.AllTheThings{ID: i32p(int32(r.Intn(99))), TheString: sp(str(r)), TheFloat: f32p(float32(someFloat(r))), TheDouble: f64p(someFloat(r))}
			},
			fresh: func() interface{} { return &ex2v2.AllTheThings{} }, mutate: func(m interface{}) { m.(*ex2v2.AllTheThings).TheString = sp("changed!") }},
		{name: "googlev2/plain/structpb.Struct(map values, oneof members, lists, nested)", ops: v2Ops, mt: 3,
			gen:   func(r *prng.Rng) interface{} { return v2Struct(r, 2) },
			fresh: func() interface{} { return &structpb.Struct{} },
			mutate: func(m interface{}) {
				m.(*structpb.Struct).Fields["changed!"] = structpb.NewBoolValue(true)
			}},
		{name: "googlev2/plain/wrapperspb.DoubleValue", ops: v2Ops, mt: 3,
			gen:   func(r *prng.Rng) interface{} { return wrapperspb.Double(someFloat(r)) },
			fresh: func() interface{} { return &wrapperspb.DoubleValue{} }, mutate: func(m interface{}) { m.(*wrapperspb.DoubleValue).Value += 1 }},
		{name: "googlev2/plain/wrapperspb.FloatValue", ops: v2Ops, mt: 3,
			gen:   func(r *prng.Rng) interface{} { return wrapperspb.Float(float32(someFloat(r))) },
			fresh: func() interface{} { return &wrapperspb.FloatValue{} }, mutate: func(m interface{}) { m.(*wrapperspb.FloatValue).Value += 1 }},
	}
}

// ---------- the comparison ----------

// typedNil: a nil pointer of the message's own type
func typedNil(m interface{}) interface{} { return reflect.Zero(reflect.TypeOf(m)).Interface() }

type argPair struct {
	kind string
	a, b interface{}
}

// sameMessage: the runtime's own notion of equality; where that notion is not reflexive on the value at hand (a
// NaN under Gogo) the text format decides, which prints every field of both
func sameMessage(t shimType, a, b interface{}) bool {
	if t.ops.equal(a, b) {
		return true
	}
	return t.ops.text(a) == t.ops.text(b)
}

// equalPairs asks csproto.Equal and the runtime's Equal about every pair and sends the pair to the Lean model of
// the dispatcher (classification of both arguments + the runtime's answer -> what the shim must answer).
func equalPairs(c *fw.Ctx, t shimType, desc string, pairs []argPair) (ok bool) {
	ok = true
	for _, p := range pairs {
		var want, got bool
		if pw := safely(func() { want = t.ops.equal(p.a, p.b) }); pw != "" {
			continue // the runtime itself has no answer for this pair: nothing to be transparent about
		}
		pg := safely(func() { got = csproto.Equal(p.a, p.b) })
		impl := b01(got)
		if pg != "" {
			impl = "panic"
		}
		c.Model("pairs", fmt.Sprintf("M equal %d %d %s %s", int(csproto.MsgType(p.a)), int(csproto.MsgType(p.b)), b01(reflect.ValueOf(p.a).Pointer() == reflect.ValueOf(p.b).Pointer()), b01(want)), impl)
		if pg != "" || got != want {
			ok = false
			c.Violate(fw.Violation{Stream: "pairs", Signature: "shim/equal-vs-runtime/" + p.kind + "/" + t.ops.class,
				What:  "csproto.Equal(a, b) differs from the owning runtime's Equal(a, b); pair: " + p.kind,
				Input: fmt.Sprintf("%s; a=%s b=%s", desc, trunc(t.ops.text(p.a), 300), trunc(textOrNil(t, p.b), 300)), Expected: fmt.Sprint(want), Got: fmt.Sprint(got, " ", pg)})
		}
	}
	return ok
}

func textOrNil(t shimType, m interface{}) (s string) {
	if v := reflect.ValueOf(m); v.Kind() == reflect.Ptr && v.IsNil() {
		return "(typed nil)"
	}
	if p := safely(func() { s = t.ops.text(m) }); p != "" {
		return "(text: " + p + ")"
	}
	return s
}

func b01(b bool) string {
	if b {
		return "1"
	}
	return "0"
}

// pairsOf: the argument pairs built around one message value
func pairsOf(t shimType, m interface{}, twin interface{}) []argPair {
	rt := t.fresh() // a copy that went through the wire (nil/empty, NaN payloads, -0.0 as the codec leaves them)
	if b, err := t.ops.marshal(m); err != nil || t.ops.unmarshal(b, rt) != nil {
		rt = t.ops.clone(m)
	}
	unk := t.fresh()                                                                                              // the same contents plus a field the type does not declare
	if b, err := t.ops.marshal(m); err != nil || t.ops.unmarshal(append(b, 0xf8, 0xff, 0x7f, 0x05), unk) != nil { // field 262143, varint 5
		unk = t.ops.clone(m)
	}
	mut := t.ops.clone(m)
	t.mutate(mut)
	cl := t.ops.clone(m)
	ps := []argPair{
		{"same-pointer", m, m},
		{"runtime-clone", m, cl}, {"runtime-clone-reversed", cl, m},
		{"csproto-clone", m, csproto.Clone(m)},
		{"wire-copy", m, rt}, {"wire-copy-same-pointer", rt, rt},
		{"copy-with-unknown-field", m, unk}, {"copy-with-unknown-field-same-pointer", unk, unk},
		{"mutated-copy", m, mut}, {"mutated-copy-reversed", mut, m},
		{"empty", m, t.fresh()}, {"empty-reversed", t.fresh(), m},
		{"typed-nil", m, typedNil(m)}, {"typed-nil-reversed", typedNil(m), m}, {"typed-nil-both", typedNil(m), typedNil(m)},
	}
	if twin != nil {
		ps = append(ps, argPair{"differs-in-one-float", m, twin}, argPair{"differs-in-one-float-reversed", twin, m})
	}
	e := t.fresh()
	ps = append(ps, argPair{"empty-same-pointer", e, e}, argPair{"empty-vs-empty", t.fresh(), t.fresh()})
	return ps
}

// unaryVsRuntime: Clone, MarshalText, Marshal/Size/Unmarshal (both directions), GrpcCodec and Reset on one value,
// each against the owning runtime's function (messages compared with sameMessage)
func unaryVsRuntime(c *fw.Ctx, t shimType, desc string, m interface{}) (ok bool) {
	ok = true
	bad := func(sig, what, exp, got string) {
		ok = false
		c.Violate(fw.Violation{Stream: "pairs", Signature: "shim/" + sig + "/" + t.ops.class, What: what, Input: desc + "; m=" + trunc(t.ops.text(m), 400), Expected: trunc(exp, 300), Got: trunc(got, 300)})
	}
	if p := safely(func() {
		before := t.ops.text(m)
		cl := csproto.Clone(m)
		if cl == nil || reflect.ValueOf(cl).Pointer() == reflect.ValueOf(m).Pointer() || reflect.TypeOf(cl) != reflect.TypeOf(m) {
			bad("clone-distinct", "csproto.Clone did not return a distinct message of the same type", "a copy", fmt.Sprint(cl))
			return
		}
		if rc := t.ops.clone(m); t.ops.text(cl) != t.ops.text(rc) || t.ops.equal(m, cl) != t.ops.equal(m, rc) {
			bad("clone-vs-runtime", "csproto.Clone differs from the runtime's Clone", t.ops.text(rc), t.ops.text(cl))
		}
		txt, err := csproto.MarshalText(m)
		if err != nil || txt != t.ops.text(m) {
			bad("text-vs-runtime", "csproto.MarshalText differs from the runtime's text format", t.ops.text(m), fmt.Sprint(txt, err))
		}
		b1, err := csproto.Marshal(m)
		b2, err2 := t.ops.marshal(m)
		if err != nil || err2 != nil {
			if (err == nil) != (err2 == nil) {
				bad("marshal-error-vs-runtime", "csproto.Marshal and the runtime's Marshal do not both succeed", fmt.Sprint(err2), fmt.Sprint(err))
			}
			return
		}
		if sz := csproto.Size(m); sz != len(b1) {
			bad("size", "csproto.Size differs from the length of csproto.Marshal", fmt.Sprint(len(b1)), fmt.Sprint(sz))
		}
		viaCs, viaRt := t.fresh(), t.fresh()
		if e1, e2 := t.ops.unmarshal(b1, viaCs), t.ops.unmarshal(b2, viaRt); e1 != nil || e2 != nil || !sameMessage(t, viaCs, viaRt) {
			bad("marshal-vs-runtime", "bytes from csproto.Marshal and bytes from the runtime's Marshal do not decode (runtime's Unmarshal) to equal messages", t.ops.text(viaRt), fmt.Sprint(t.ops.text(viaCs), e1, e2))
		}
		d1, d2 := t.fresh(), t.fresh()
		if e1, e2 := csproto.Unmarshal(b2, d1), t.ops.unmarshal(b2, d2); e1 != nil || e2 != nil || !sameMessage(t, d1, d2) {
			bad("unmarshal-vs-runtime", "csproto.Unmarshal and the runtime's Unmarshal of the same bytes give different messages", t.ops.text(d2), fmt.Sprint(t.ops.text(d1), e1, e2))
		}
		codec := csproto.GrpcCodec{}
		d3 := t.fresh()
		if b3, e1 := codec.Marshal(m); e1 != nil || codec.Unmarshal(b3, d3) != nil || !sameMessage(t, d3, d2) {
			bad("grpc-codec-vs-runtime", "a GrpcCodec round trip gives a different message than the runtime's round trip", t.ops.text(d2), t.ops.text(d3))
		}
		if after := t.ops.text(m); after != before {
			bad("argument-modified", "Clone / MarshalText / Marshal / Size modified their argument", before, after)
		}
		r1, r2 := t.ops.clone(m), t.ops.clone(m)
		csproto.Reset(r1)
		reflect.ValueOf(r2).MethodByName("Reset").Call(nil)
		if !sameMessage(t, r1, r2) || !t.ops.equal(r1, t.fresh()) {
			bad("reset-vs-runtime", "csproto.Reset differs from the message's own Reset", t.ops.text(r2), t.ops.text(r1))
		}
	}); p != "" {
		bad("panic", "a csproto function panicked on a supported message", "", p)
	}
	return ok
}

// floatCases: every float position x every special value
func floatCases(c *fw.Ctx, t shimType, rounds int) {
	r := c.Rng
	for round := 0; round < rounds; round++ {
		var probe []floatSite
		floatSites(reflect.ValueOf(t.gen(r.Fork())), "", &probe, 0)
		if len(probe) == 0 {
			c.Notes = append(c.Notes, "pairs: no float position found in "+t.name)
			return
		}
		for si := range probe {
			for _, sf := range specialFloats {
				seed := r.U64()
				build := func(v float64) (interface{}, string) {
					m := t.gen(prng.New(seed))
					var sites []floatSite
					floatSites(reflect.ValueOf(m), "", &sites, 0)
					if si >= len(sites) {
						return nil, ""
					}
					sites[si].set(v)
					return m, sites[si].path
				}
				m, path := build(sf.v)
				twin, _ := build(sf.twin)
				if m == nil {
					continue
				}
				desc := fmt.Sprintf("%s with %s = %s (the copy that differs there holds %v)", t.name, path, sf.name, sf.twin)
				c.Journal("C11 pairs " + desc)
				outcome := "ok"
				if !equalPairs(c, t, desc, pairsOf(t, m, twin)) {
					outcome = "equal-differs"
				}
				if !unaryVsRuntime(c, t, desc, m) && outcome == "ok" {
					outcome = "unary-differs"
				}
				c.Count("pairs", desc+t.ops.text(m), outcome, len(probe), true)
			}
		}
	}
}

// plainPairs: the same pairs on ordinary random values of every type of the corpus
func plainPairs(c *fw.Ctx, t shimType) {
	m := t.gen(c.Rng)
	desc := t.name + " (random value)"
	c.Journal("C11 pairs " + desc)
	outcome := "ok"
	if !equalPairs(c, t, desc, pairsOf(t, m, nil)) {
		outcome = "equal-differs"
	}
	if !unaryVsRuntime(c, t, desc, m) && outcome == "ok" {
		outcome = "unary-differs"
	}
	if !unaryVsRuntime(c, t, t.name+" (empty message)", t.fresh()) && outcome == "ok" {
		outcome = "unary-differs-on-empty"
	}
	c.Count("pairs", desc+fmt.Sprint(m), outcome, 1, true)
}
