package main

import (
	"bytes"
	"errors"
	"fmt"
	"time"

	"github.com/CrowdStrike/csproto"
	gogotypes "github.com/gogo/protobuf/types"
	dto "github.com/prometheus/client_model/go"
	"google.golang.org/protobuf/encoding/protowire"
	"google.golang.org/protobuf/types/known/durationpb"
	"google.golang.org/protobuf/types/known/timestamppb"
	"google.golang.org/protobuf/types/known/wrapperspb"

	exv2 "github.com/CrowdStrike/csproto/example/proto3/googlev2"

	"csverif/internal/fw"
	"csverif/internal/prng"
)

func init() { props["C19"] = runC19 }

var errDouble = errors.New("nested marshal failed")

// ---- test doubles: each offers a different subset of {Size, MarshalTo, Marshal} ----

type dblTo struct { // marshals itself into a supplied buffer
	body []byte
	size int
	fail bool
}

func (d *dblTo) Size() int { return d.size }
func (d *dblTo) MarshalTo(dest []byte) error {
	if d.fail {
		return errDouble
	}
	for i, b := range d.body { // indexed stores, like an Encoder over dest
		dest[i] = b
	}
	return nil
}

type dblM struct { // marshals itself to a fresh slice, has Size
	body []byte
	size int
	fail bool
}

func (d *dblM) Size() int { return d.size }
func (d *dblM) Marshal() ([]byte, error) {
	if d.fail {
		return nil, errDouble
	}
	return append([]byte{}, d.body...), nil
}

type dblMO struct { // Marshal only, no Size at all
	body []byte
	fail bool
}

func (d *dblMO) Marshal() ([]byte, error) {
	if d.fail {
		return nil, errDouble
	}
	return append([]byte{}, d.body...), nil
}

type nestedCase struct {
	flavour string
	msg     interface{}
	body    []byte // what csproto.Marshal(msg) returns (nil + fail when it errors)
	fail    bool
	sz      int
	how     int
	fresh   func() interface{} // empty message of the same type for decoding (nil for doubles)
	other   func() interface{} // a message of the same type holding other data (nil when not available)
}

func classify(m interface{}) int {
	switch m.(type) {
	case csproto.MarshalerTo:
		return 0
	case csproto.Marshaler:
		return 1
	}
	return 2
}

func genNested(r *prng.Rng) nestedCase {
	randBody := func() []byte {
		switch r.Intn(5) {
		case 0:
			return []byte{}
		case 1:
			return r.Bytes(127 + r.Intn(3))
		default:
			return r.Bytes(r.Intn(40))
		}
	}
	var nc nestedCase
	switch r.Intn(12) {
	case 0:
		b := randBody()
		nc = nestedCase{flavour: "double/MarshalerTo", msg: &dblTo{body: b, size: len(b)}}
	case 1:
		b := randBody()
		nc = nestedCase{flavour: "double/Marshaler+Size", msg: &dblM{body: b, size: len(b)}}
	case 2:
		nc = nestedCase{flavour: "double/Marshal-only", msg: &dblMO{body: randBody()}}
	case 3:
		nc = nestedCase{flavour: "double/MarshalerTo-failing", msg: &dblTo{body: randBody(), size: r.Intn(10), fail: true}}
	case 4:
		nc = nestedCase{flavour: "double/Marshaler-failing", msg: &dblM{body: randBody(), size: r.Intn(10), fail: true}}
	case 5:
		nc = nestedCase{flavour: "double/Marshaler-wrong-Size", msg: &dblM{body: randBody(), size: r.Intn(300)}}
	case 6:
		nc = nestedCase{flavour: "googlev2/wellknown", msg: timestamppb.New(timeFrom(r)), fresh: func() interface{} { return &timestamppb.Timestamp{} },
			other: func() interface{} { return &timestamppb.Timestamp{Seconds: 77, Nanos: 99} }}
		if r.Bool() {
			nc.msg, nc.fresh = wrapperspb.String(string(asciiBytes(r, r.Intn(30)))), func() interface{} { return &wrapperspb.StringValue{} }
		} else if r.Bool() {
			nc.msg, nc.fresh = &durationpb.Duration{}, func() interface{} { return &durationpb.Duration{} } // empty message
		}
	case 7:
		nc = nestedCase{flavour: "gogo/plain", msg: &gogotypes.Timestamp{Seconds: int64(r.U64Interesting() >> 1), Nanos: int32(r.Intn(1e9))}, fresh: func() interface{} { return &gogotypes.Timestamp{} },
			other: func() interface{} { return &gogotypes.Timestamp{Seconds: 77, Nanos: 99} }}
		if r.Chance(1, 4) {
			nc.msg = &gogotypes.Timestamp{}
		}
	case 8:
		name, val := string(asciiBytes(r, r.Intn(20))), string(asciiBytes(r, r.Intn(20)))
		nc = nestedCase{flavour: "googlev1/plain", msg: &dto.LabelPair{Name: &name, Value: &val}, fresh: func() interface{} { return &dto.LabelPair{} },
			other: func() interface{} { n, v := "old-name", "old-value"; return &dto.LabelPair{Name: &n, Value: &v} }}
		if r.Chance(1, 4) {
			nc.msg = &dto.LabelPair{}
		}
	default:
		ev := &exv2.EmbeddedEvent{ID: int32(r.U64Interesting()), Stuff: string(asciiBytes(r, r.Intn(30)))}
		for i := r.Intn(4); i > 0; i-- {
			ev.FavoriteNumbers = append(ev.FavoriteNumbers, int32(r.U64Interesting()))
		}
		for i := r.Intn(3); i > 0; i-- {
			ev.RandomThings = append(ev.RandomThings, r.Bytes(r.Intn(6)))
		}
		if r.Chance(1, 6) {
			ev = &exv2.EmbeddedEvent{}
		}
		nc = nestedCase{flavour: "googlev2/fast-marshal", msg: ev, fresh: func() interface{} { return &exv2.EmbeddedEvent{} },
			other: func() interface{} { return &exv2.EmbeddedEvent{ID: 31, Stuff: "old", FavoriteNumbers: []int32{9, 9}} }}
	}
	nc.how = classify(nc.msg)
	nc.sz = csproto.Size(nc.msg)
	b, err := csproto.Marshal(nc.msg)
	if err != nil {
		nc.fail = true
	} else {
		nc.body = b
	}
	if d, ok := nc.msg.(*dblTo); ok { // csproto.Marshal does not know this double
		nc.fail, nc.body = d.fail, d.body
	}
	return nc
}

func timeFrom(r *prng.Rng) time.Time {
	return time.Unix(int64(r.Intn(1<<31)), int64(r.Intn(1e9))).UTC()
}

func asciiBytes(r *prng.Rng, n int) []byte {
	b := make([]byte, n)
	for i := range b {
		b[i] = byte(32 + r.Intn(95))
	}
	return b
}

func nestedEncOp(tag int, nc nestedCase) encOp {
	return encOp{name: "nested", tag: tag, u: uint64(nc.sz), i: int64(nc.how), b: nc.body, fail: nc.fail,
		call: func(e *csproto.Encoder) error { return e.EncodeNested(tag, nc.msg) }}
}

func nestedCaseRun(c *fw.Ctx) {
	r := c.Rng
	nc := genNested(r)
	tag := genTag(r)
	var ops []encOp
	var want []byte
	pos := r.Intn(3) // first / middle / last
	ks := scalarKinds()
	addScalar := func() {
		k := ks[r.Intn(len(ks))]
		op := k.enc(genTag(r), k.gen(r))
		ops = append(ops, op)
		want = append(want, refEncode(op)...)
	}
	if pos >= 1 {
		addScalar()
	}
	ops = append(ops, nestedEncOp(tag, nc))
	nestedStart := len(want)
	hdrOnly := false
	if !nc.fail {
		want = protowire.AppendTag(want, protowire.Number(tag), protowire.BytesType)
		want = protowire.AppendBytes(want, nc.body)
	} else if nc.how == 0 {
		// MarshalerTo path writes key and Size before calling MarshalTo
		want = protowire.AppendTag(want, protowire.Number(tag), protowire.BytesType)
		want = protowire.AppendVarint(want, uint64(nc.sz))
		hdrOnly = true
	}
	nestedEnd := len(want)
	if pos <= 1 {
		addScalar()
	}
	sizeMismatch := !nc.fail && nc.how == 0 && nc.sz != len(nc.body)
	capacity := len(want) + r.Intn(2)*r.Intn(5)
	desc := fmt.Sprintf("%s tag=%d pos=%d how=%d size=%d body=%s fail=%v cap=%d", nc.flavour, tag, pos, nc.how, nc.sz, trunc(hexs(nc.body), 120), nc.fail, capacity)
	c.Journal("C19 " + desc)
	req, reply, panicked, buf, off := runEncProgram(capacity, ops)
	c.Model("encode-nested", req, reply)
	outcome := "ok"
	switch {
	case sizeMismatch:
		outcome = "size-contract-violated-by-nested" // outside the property's hypothesis: only the model is compared
	case panicked:
		outcome = "panic"
		c.Violate(fw.Violation{Stream: "encode-nested", Signature: "encode/panic/" + nc.flavour, What: "EncodeNested panicked on a sufficient buffer", Input: desc})
	case nc.fail:
		// the property only requires the error to propagate; what the buffer holds afterwards is
		// compared with the model (correspondence), not judged by the oracle
	case off != len(want) || !bytes.Equal(buf[:len(want)], want):
		outcome = "bytes-mismatch"
		what := "EncodeNested did not write key, length and exactly the bytes csproto.Marshal returns / cursor not advanced by that amount"
		c.Violate(fw.Violation{Stream: "encode-nested", Signature: "encode/bytes/" + nc.flavour, What: what, Input: desc,
			Expected: fmt.Sprintf("%s cursor %d", trunc(hexs(want), 300), len(want)), Got: fmt.Sprintf("%s cursor %d", trunc(hexs(buf), 300), off)})
	}
	if nc.fail && outcome == "ok" {
		outcome = "nested-error"
		// the error must have been returned by the call
		sts := reply
		if i := bytes.IndexByte([]byte(reply), ' '); i >= 0 {
			sts = reply[:i]
		}
		idx := 0
		if pos >= 1 {
			idx = 1
		}
		parts := bytes.Split([]byte(sts), []byte(","))
		if idx >= len(parts) || string(parts[idx]) != "err" {
			c.Violate(fw.Violation{Stream: "encode-nested", Signature: "encode/error-dropped/" + nc.flavour, What: "error from the nested marshaler was not returned by EncodeNested", Input: desc, Got: sts})
		}
	}
	_ = hdrOnly
	c.Count("encode-nested", desc, outcome+"/"+nc.flavour, len(want), len(nc.body) > 0)
	if r.Intn(150) == 0 {
		c.Sample(map[string]interface{}{"stream": "encode-nested", "case": trunc(desc, 200), "buffer": trunc(hexs(buf), 120)})
	}
	if nc.fail || sizeMismatch || outcome != "ok" {
		return
	}
	// ---- read side on the bytes just written ----
	in := append([]byte{}, want...)
	fast := r.Bool()
	var ops2 []decOp
	if pos >= 1 {
		ops2 = append(ops2, decOp{name: "seek", a: int64(nestedStart), b: 0})
	}
	ops2 = append(ops2, decOp{name: "tag"}, decOp{name: "nested", a: 0}, decOp{name: "offset"}, decOp{name: "nested", a: 1}, decOp{name: "offset"})
	rq, rp, results, offsets := runDecProgram(fast, in, ops2)
	reportHeld(c, "decode-nested")
	c.ModelCmp("decode-nested", rq, rp, stripAlloc)
	base := len(results) - 5
	dout := "ok"
	switch {
	case base < 0 || !results[base].ok:
		dout = "tag-failed"
		c.Violate(fw.Violation{Stream: "decode-nested", Signature: "decode/tag", What: "DecodeTag failed on the field EncodeNested wrote", Input: desc, Got: rp})
	case results[base+1].reply != "errn:"+hexs(nc.body):
		dout = "error-not-propagated"
		c.Violate(fw.Violation{Stream: "decode-nested", Signature: "decode/nested-error", What: "failing nested unmarshaler: error not propagated or wrong payload handed over", Input: desc, Expected: "errn:" + hexs(nc.body), Got: results[base+1].reply})
	case offsets[base+1] != offsets[base]:
		dout = "cursor-moved-on-error"
		c.Violate(fw.Violation{Stream: "decode-nested", Signature: "decode/cursor-on-error", What: "cursor moved although the nested unmarshaler failed", Input: desc})
	case !results[base+3].ok || results[base+3].item != "x"+hexs(nc.body) || offsets[base+3] != nestedEnd:
		dout = "payload-mismatch"
		c.Violate(fw.Violation{Stream: "decode-nested", Signature: "decode/payload/" + nc.flavour, What: "DecodeNested did not hand over exactly the declared bytes / did not consume exactly the field", Input: desc,
			Expected: fmt.Sprintf("x%s then offset %d", hexs(nc.body), nestedEnd), Got: fmt.Sprintf("%s then offset %d", results[base+3].reply, offsets[base+3])})
	}
	// declared length beyond the buffer: must fail without invoking the nested decoder
	if len(nc.body) > 0 {
		cut := in[:nestedEnd-1-r.Intn(len(nc.body))]
		d := csproto.NewDecoder(cut)
		d.Seek(int64(nestedStart), 0)
		if _, _, err := d.DecodeTag(); err == nil {
			nd := &nestedDouble{ok: true}
			err := func() (err error) {
				defer func() {
					if x := recover(); x != nil {
						err = fmt.Errorf("panic: %v", x)
					}
				}()
				return d.DecodeNested(nd)
			}()
			if err == nil || nd.invoked {
				dout = "truncated-accepted"
				c.Violate(fw.Violation{Stream: "decode-nested", Signature: "decode/beyond-buffer", What: "declared length beyond the buffer was not rejected before invoking the nested decoder", Input: hexs(cut), Got: fmt.Sprint(err, " invoked=", nd.invoked)})
			}
			rq, rp, _, _ := runDecProgram(false, cut, []decOp{{name: "seek", a: int64(nestedStart), b: 0}, {name: "tag"}, {name: "nested", a: 1}})
			c.ModelCmp("decode-nested", rq, rp, stripAlloc)
		}
	}
	// the same field with its length written as a padded (non-minimal) varint, as writers that back-patch
	// fixed-width length prefixes emit: still exactly the declared bytes, cursor on the next field
	if dout == "ok" {
		extra := 1 + r.Intn(3)
		lenb := protowire.AppendVarint(nil, uint64(len(nc.body)))
		lenb[len(lenb)-1] |= 0x80
		for j := 1; j < extra; j++ {
			lenb = append(lenb, 0x80)
		}
		lenb = append(lenb, 0x00)
		in2 := append([]byte{}, in[:nestedStart]...)
		in2 = protowire.AppendTag(in2, protowire.Number(tag), protowire.BytesType)
		in2 = append(in2, lenb...)
		in2 = append(in2, nc.body...)
		end2 := len(in2)
		in2 = append(in2, in[nestedEnd:]...)
		ops3 := []decOp{{name: "seek", a: int64(nestedStart), b: 0}, {name: "tag"}, {name: "nested", a: 1}, {name: "offset"}}
		if end2 < len(in2) {
			ops3 = append(ops3, decOp{name: "tag"})
		}
		rq, rp, res3, offs3 := runDecProgram(fast, in2, ops3)
		c.ModelCmp("decode-nested", rq, rp, stripAlloc)
		if !res3[2].ok || res3[2].item != "x"+hexs(nc.body) || offs3[2] != end2 {
			dout = "padded-length-mismatch"
			c.Violate(fw.Violation{Stream: "decode-nested", Signature: "decode/padded-length/" + nc.flavour, What: "DecodeNested of a field whose length prefix is a padded varint did not hand over exactly the declared bytes / did not leave the cursor on the next field",
				Input: hexs(in2), Expected: fmt.Sprintf("x%s then offset %d", hexs(nc.body), end2), Got: fmt.Sprintf("%s then offset %d", res3[2].reply, offs3[2])})
		}
	}
	// real message types: decode into a fresh message and compare
	if nc.fresh != nil && dout == "ok" {
		d := csproto.NewDecoder(in)
		d.Seek(int64(nestedStart), 0)
		d.DecodeTag()
		m2 := nc.fresh()
		if err := d.DecodeNested(m2); err != nil {
			dout = "real-decode-error"
			c.Violate(fw.Violation{Stream: "decode-nested", Signature: "decode/real/" + nc.flavour, What: "DecodeNested into a fresh message of the same type failed", Input: desc, Got: err.Error()})
		} else {
			b2, err := csproto.Marshal(m2)
			if err != nil || !bytes.Equal(b2, nc.body) || d.Offset() != nestedEnd {
				dout = "real-decode-mismatch"
				c.Violate(fw.Violation{Stream: "decode-nested", Signature: "decode/real-equal/" + nc.flavour, What: "decoded message is not equal to the one encoded", Input: desc, Expected: hexs(nc.body), Got: hexs(b2)})
			}
		}
	}
	// … and into a message of that type that already holds other data: still an equal message
	if nc.fresh != nil && nc.other != nil && dout == "ok" {
		d := csproto.NewDecoder(in)
		d.Seek(int64(nestedStart), 0)
		d.DecodeTag()
		m3 := nc.other()
		if err := d.DecodeNested(m3); err == nil {
			if b3, err := csproto.Marshal(m3); err != nil || !bytes.Equal(b3, nc.body) {
				dout = "real-decode-into-used-mismatch"
				c.Violate(fw.Violation{Stream: "decode-nested", Signature: "decode/real-into-used/" + nc.flavour, What: "DecodeNested into a message that already holds data does not yield a message equal to the one encoded", Input: desc, Expected: hexs(nc.body), Got: hexs(b3)})
			}
		}
	}
	c.Count("decode-nested", desc, dout+"/"+nc.flavour, len(in), len(nc.body) > 0)
}

func runC19(c *fw.Ctx) int {
	c.Facts = extractFacts(c)
	c.Prove("C19")
	n := 3000
	if c.Tier == "thorough" {
		n = 150000
	}
	for i := 0; i < n; i++ {
		nestedCaseRun(c)
		if i%5000 == 4999 {
			c.FlushModel()
		}
	}
	if c.Tier == "thorough" {
		c.LeanChecker("C19")
	}
	return c.Finish(
		"encode-nested: EncodeNested of nested messages of ten flavours (doubles: MarshalerTo / Marshaler+Size / Marshal-only / failing / wrong Size; real: google v2 well-known types incl. the empty message, gogo plain Timestamp, golang v1 plain (prometheus LabelPair), google v2 fast-marshal EmbeddedEvent) placed first/middle/last among scalar fields in an exact or slightly larger buffer; decode-nested: the written field read back with a failing and a succeeding nested unmarshaler, with the buffer truncated inside the payload, with the length prefix re-written as a padded varint, and into a fresh message of the real type; non-trivial = distinct case with a non-empty nested body",
		append(trustedCommon, "the three protobuf runtimes' own Marshal/Unmarshal (used through csproto.Marshal to obtain the expected nested bytes)"),
		[]string{"MarshalerTo path: exactness assumes the nested message's own contract Size(m) = len(MarshalTo output) (C04 for generated code); a double violating it is compared with the model only",
			"classification of a message into the three paths is done by the harness with the same interface assertions (bridged to the regenerated arm order of EncodeNested)"})
}
