package main

// Orchestration of the generated-code pipeline: schema corpus -> plug-ins -> scratch module ->
// compiled runner (with harness/gencheck linked in) -> results ingested into the check context.

import (
	"bufio"
	"bytes"
	"encoding/json"
	"fmt"
	"os"
	"os/exec"
	"path/filepath"
	"sort"
	"strings"
	"time"

	"google.golang.org/protobuf/proto"
	"google.golang.org/protobuf/types/descriptorpb"

	"csverif/internal/fw"
	"csverif/internal/genpipe"
)

type builtCorpus struct {
	dir      string
	bin      string
	gens     []*genpipe.Generated
	compiled map[string]bool   // schema/variant -> compiles
	buildErr map[string]string // schema/variant -> first compiler error
	plugins  *genpipe.Plugins

	// sameAsBase: (schema, option variant) pairs left out of gens because the generator produced the base variant's code
	// for them (compiled and run there); C16's requests naming several files still include them
	sameAsBase []*genpipe.Generated
}

func goTypeName(full string) string { return strings.ReplaceAll(full, ".", "_") }

func collectMessages(ms []genpipe.M, prefix string, out *[]string) {
	for _, m := range ms {
		n := m.Name
		if prefix != "" {
			n = prefix + "." + m.Name
		}
		*out = append(*out, n)
		collectMessages(m.Nested, n, out)
	}
}

// camel: protoc-gen-go's CamelCase of a field name (x_int32 -> XInt32)
func camel(s string) string {
	var out []byte
	up := true
	for i := 0; i < len(s); i++ {
		c := s[i]
		switch {
		case c == '_':
			up = true
			if i+1 < len(s) && !(s[i+1] >= 'a' && s[i+1] <= 'z') {
				out = append(out, '_')
			}
		case up && c >= 'a' && c <= 'z':
			out = append(out, c-32)
			up = false
		default:
			out = append(out, c)
			up = false
		}
	}
	return string(out)
}

// baseKind strips a declared proto2 default ("int32=5") from a corpus kind
func baseKind(k string) string {
	if i := strings.Index(k, "="); i >= 0 {
		return k[:i]
	}
	return k
}

func exportName(s string) string {
	// protoc-gen-go camel-cases message names that start with a lower-case letter
	if s == "" {
		return s
	}
	parts := strings.Split(s, "_")
	for i, p := range parts {
		if p != "" && p[0] >= 'a' && p[0] <= 'z' && (i == 0) {
			parts[i] = strings.ToUpper(p[:1]) + p[1:]
		}
	}
	return strings.Join(parts, "_")
}

var fmVariants = []genpipe.Variant{
	{Runtime: "v2", FM: true}, {Runtime: "gogo", FM: true}, {Runtime: "gogo"},
	{Runtime: "v1", FM: true, PerMessage: true}, {Runtime: "v2", FM: true, Unsafe: true},
}

// allVariants: the fixed variants plus, for every boolean option of the generator that the pipeline discovers in
// the generator's source and has no fixed variant for, that option switched on with the google v2 runtime (single
// file template) and with the v1 API and a file per message (the other file template). A (schema, option variant)
// pair whose generated code is the base variant's (the option does not reach it) is left out by buildCorpus.
func allVariants() []genpipe.Variant {
	vs := append([]genpipe.Variant{}, fmVariants...)
	for _, o := range genpipe.NewBoolOptions() {
		vs = append(vs, genpipe.Variant{Runtime: "v2", FM: true, Opt: o}, genpipe.Variant{Runtime: "v1", FM: true, PerMessage: true, Opt: o})
	}
	// the repeatable option (a flag.Value, discovered in the generator's source too): every shape of handing it several
	// values, with the runtime it is meant for
	if genpipe.HasValueOption("specialname") {
		for _, sh := range genpipe.RepeatedShapes {
			vs = append(vs, genpipe.Variant{Runtime: "gogo", FM: true, Rep: sh.Label})
		}
	}
	return vs
}

// buildCorpus generates and compiles the corpus (cached by content hash under /verif/.cache/gen).
func buildCorpus(c *fw.Ctx) *builtCorpus {
	cache := filepath.Join(fw.VerifDir, ".cache")
	pl, err := genpipe.BuildPlugins(filepath.Join(cache, "bin"))
	if err != nil {
		c.BrokenProof = append(c.BrokenProof, "plug-ins do not build: "+err.Error())
		return nil
	}
	bc := &builtCorpus{plugins: pl, compiled: map[string]bool{}, buildErr: map[string]string{}}
	optEffect := map[string][]string{} // option -> schema/variant pairs whose generated code it changes
	for _, o := range genpipe.NewBoolOptions() {
		optEffect[o+"=true"] = []string{}
	}
	optLabel := func(v genpipe.Variant) string {
		if v.Rep != "" {
			return "specialname=" + strings.Join(v.SpecialNames(), ",specialname=")
		}
		return v.Opt + "=true"
	}
	variants := allVariants()
	tGen := time.Now()
	for _, v := range variants {
		if v.Rep != "" {
			optEffect[optLabel(v)] = []string{}
		}
	}
	for _, s := range genpipe.Corpus() {
		base := map[genpipe.Variant]*genpipe.Generated{}
		// (a schema that needs several specialname values has no fixed variant: the first shape that takes it is the
		// base of the others — on every shape with the names it needs, the generated code must be the same)
		var repBase *genpipe.Generated
		for _, v := range variants {
			if !v.Takes(s) {
				continue
			}
			// the shapes of the repeatable option: all of them on the schemas the option is meant for (and the first schema
			// of the corpus), the three values in descending order and all values on every schema
			if v.Rep != "" && v.Rep != "desc3" && v.Rep != "asc6" && len(s.Special) == 0 && s.ID != genpipe.Corpus()[0].ID {
				continue
			}
			if v.Opt == "" && v.Rep == "" {
				g := genpipe.Generate(pl, s, v)
				base[v] = g
				bc.gens = append(bc.gens, g)
				continue
			}
			bv := v
			bv.Opt, bv.Rep = "", ""
			b := base[bv]
			if b == nil && v.Rep != "" {
				b = repBase
			}
			if b != nil && strings.HasPrefix(b.GenError, "runtime plug-in") {
				continue // the runtime's own plug-in rejects the schema, whatever the generator's options
			}
			g, same := genpipe.GenerateUnlessSame(pl, s, v, b)
			if same {
				// the same code as the base variant: compiled and run there. C16's requests naming several files take the
				// schemas the repeatable option reaches and the first schema of the corpus
				if v.Rep == "" || len(s.Special) > 0 || s.ID == genpipe.Corpus()[0].ID {
					bc.sameAsBase = append(bc.sameAsBase, g)
				}
				continue
			}
			if v.Rep != "" && base[bv] == nil && repBase == nil {
				repBase = g
			}
			optEffect[optLabel(v)] = append(optEffect[optLabel(v)], s.ID+"/"+v.Name())
			bc.gens = append(bc.gens, g)
		}
	}
	c.Extra["corpus_generate_s"] = time.Since(tGen).Seconds()
	c.Extra["generator_bool_options_discovered"] = genpipe.BoolOptions()
	c.Extra["generator_value_options_discovered"] = genpipe.ValueOptions()
	if nv := genpipe.NewValueOptions(); len(nv) > 0 {
		c.Extra["generator_value_options_without_variants"] = nv
		c.Notes = append(c.Notes, fmt.Sprintf("the generator registers value options (flags.Var) the pipeline has no values for: %v — no variant exercises them", nv))
	}
	c.Extra["generator_option_variants_with_other_code_than_the_base_variant"] = optEffect
	// everything that influences the runner binary goes into the key
	repoHash, _ := exec.Command("bash", "-c", "cd "+fw.RepoDir+" && { git rev-parse HEAD; git diff HEAD -- . ':!example' ':!cmd' ; git status --porcelain -- . ':!example'; } | sha256sum").Output()
	harnessHash, _ := exec.Command("bash", "-c", "cd "+fw.VerifDir+"/harness && cat gencheck/*.go internal/prng/*.go cmd/corr/gen.go internal/genpipe/*.go | sha256sum").Output()
	key := genpipe.Key(bc.gens, string(repoHash), string(harnessHash))
	c.Extra["corpus_key_inputs"] = fmt.Sprintf("repo %.12s harness %.12s generated %s", repoHash, harnessHash, genpipe.Key(bc.gens))
	bc.dir = filepath.Join(cache, "gen", key)
	bc.bin = filepath.Join(bc.dir, "run.bin")
	statusFile := filepath.Join(bc.dir, "status.json")
	if data, err := os.ReadFile(statusFile); err == nil {
		var st struct {
			Compiled map[string]bool
			BuildErr map[string]string
		}
		if json.Unmarshal(data, &st) == nil {
			if _, err := os.Stat(bc.bin); err == nil {
				bc.compiled, bc.buildErr = st.Compiled, st.BuildErr
				c.Notes = append(c.Notes, "generated-code runner reused from cache "+key)
				return bc
			}
		}
	}
	os.RemoveAll(bc.dir)
	if err := genpipe.WriteModule(bc.dir, bc.gens, "", filepath.Join(fw.VerifDir, "harness")); err != nil {
		c.BrokenProof = append(c.BrokenProof, "cannot write scratch module: "+err.Error())
		return nil
	}
	t0 := time.Now()
	// compile every generated package on its own (C16's compile clause)
	for _, g := range bc.gens {
		id := g.Schema.ID + "/" + g.Variant.Name()
		if g.GenError != "" {
			continue
		}
		cmd := exec.Command("go", "build", "./"+id+"/")
		cmd.Dir = bc.dir
		out, err := cmd.CombinedOutput()
		if err != nil {
			first := ""
			for _, l := range strings.Split(string(out), "\n") {
				if strings.Contains(l, ".go:") {
					first = strings.TrimSpace(l)
					break
				}
			}
			bc.buildErr[id] = first
			continue
		}
		bc.compiled[id] = true
	}
	// the runner: links gencheck with every compiling fast-marshal package (gogo needs its twin)
	main := bc.mainSource()
	os.MkdirAll(filepath.Join(bc.dir, "cmd", "run"), 0o755)
	os.WriteFile(filepath.Join(bc.dir, "cmd", "run", "main.go"), []byte(main), 0o644)
	// (-tags verif: gencheck uses csproto.VerifResetMsgTypeCache to replay the first use of a message type)
	cmd := exec.Command("go", "build", "-tags", "verif", "-o", bc.bin, "./cmd/run")
	cmd.Dir = bc.dir
	if out, err := cmd.CombinedOutput(); err != nil {
		c.BrokenProof = append(c.BrokenProof, "generated-code runner does not build: "+trunc(string(out), 400))
		return nil
	}
	st, _ := json.Marshal(map[string]interface{}{"Compiled": bc.compiled, "BuildErr": bc.buildErr})
	os.WriteFile(statusFile, st, 0o644)
	c.Extra["corpus_build_s"] = time.Since(t0).Seconds()
	pruneGenCache(filepath.Join(cache, "gen"), 6)
	return bc
}

func pruneGenCache(dir string, keep int) {
	ents, _ := os.ReadDir(dir)
	type e struct {
		name string
		t    time.Time
	}
	var es []e
	for _, x := range ents {
		if i, err := x.Info(); err == nil {
			es = append(es, e{x.Name(), i.ModTime()})
		}
	}
	sort.Slice(es, func(i, j int) bool { return es[i].t.After(es[j].t) })
	for i := keep; i < len(es); i++ {
		os.RemoveAll(filepath.Join(dir, es[i].name))
	}
}

func (bc *builtCorpus) usable(g *genpipe.Generated) bool {
	id := g.Schema.ID + "/" + g.Variant.Name()
	if !g.Variant.FM || g.GenError != "" || !bc.compiled[id] || len(g.Schema.Messages) == 0 {
		return false // (a schema without messages only matters to C16)
	}
	// a response that names one output file twice (open finding B15) leaves a message type without
	// methods: reported by C16, unusable here
	seen := map[string]bool{}
	for _, f := range g.FMFiles {
		if seen[f] {
			return false
		}
		seen[f] = true
	}
	if g.Variant.Runtime == "gogo" && !bc.compiled[g.Schema.ID+"/gogoplain"] {
		return false
	}
	return true
}

func (bc *builtCorpus) mainSource() string {
	var b strings.Builder
	b.WriteString("// generated by harness/cmd/corr — links the generated packages with the gencheck library\npackage main\n\nimport (\n\t\"csverif/gencheck\"\n")
	alias := func(g *genpipe.Generated) string { return "p_" + g.Schema.ID + "_" + g.Variant.Name() }
	needTwin := map[string]bool{}
	for _, g := range bc.gens {
		if bc.usable(g) {
			fmt.Fprintf(&b, "\t%s %q\n", alias(g), g.GoImport)
			if g.Variant.Runtime == "gogo" {
				needTwin[g.Schema.ID] = true
			}
		}
	}
	for _, g := range bc.gens {
		if !g.Variant.FM && g.Variant.Runtime == "gogo" && needTwin[g.Schema.ID] {
			fmt.Fprintf(&b, "\t%s %q\n", alias(g), g.GoImport)
		}
	}
	b.WriteString(")\n\nfunc main() {\n\tgencheck.Main([]*gencheck.Target{\n")
	for _, g := range bc.gens {
		if !bc.usable(g) {
			continue
		}
		set := &descriptorpb.FileDescriptorSet{File: append(append([]*descriptorpb.FileDescriptorProto{}, g.Deps...), g.FileProto)}
		raw, _ := proto.Marshal(set)
		fmt.Fprintf(&b, "\t\t{Schema: %q, Variant: %q, Runtime: %q, Unsafe: %v, FDSet: []byte(%q), Messages: map[string]gencheck.Factory{\n",
			g.Schema.ID, g.Variant.Name(), g.Variant.Runtime, g.Variant.Unsafe, string(raw))
		var names []string
		collectMessages(g.Schema.Messages, "", &names)
		for _, n := range names {
			gt := exportName(goTypeName(n))
			twin := "nil"
			if g.Variant.Runtime == "gogo" {
				twin = fmt.Sprintf("func() interface{} { return &p_%s_gogoplain.%s{} }", g.Schema.ID, gt)
			}
			fmt.Fprintf(&b, "\t\t\t%q: {New: func() interface{} { return &%s.%s{} }, Twin: %s},\n", n, alias(g), gt, twin)
		}
		b.WriteString("\t\t}, Exts: []gencheck.ExtVar{\n")
		var walk func(ms []genpipe.M, prefix string)
		walk = func(ms []genpipe.M, prefix string) {
			for _, m := range ms {
				full := m.Name
				if prefix != "" {
					full = prefix + "." + m.Name
				}
				for _, x := range m.Ext {
					fmt.Fprintf(&b, "\t\t\t{Name: %q, Num: %d, Kind: %q, Extendee: %q, Desc: %s.E_%s_%s},\n", x.Name, x.Num, baseKind(x.Kind),
						strings.TrimPrefix(x.Card, "ext:"), alias(g), exportName(goTypeName(full)), camel(x.Name))
				}
				walk(m.Nested, full)
			}
		}
		walk(g.Schema.Messages, "")
		for _, x := range g.Schema.FileExt {
			fmt.Fprintf(&b, "\t\t\t{Name: %q, Num: %d, Kind: %q, Extendee: %q, Desc: %s.E_%s},\n", x.Name, x.Num, baseKind(x.Kind),
				strings.TrimPrefix(x.Card, "ext:"), alias(g), camel(x.Name))
		}
		b.WriteString("\t\t}},\n")
	}
	b.WriteString("\t})\n}\n")
	return b.String()
}

// runGenerated executes the runner for one property and ingests its JSON lines.
func runGenerated(c *fw.Ctx, bc *builtCorpus, prop string) {
	journal := filepath.Join(fw.VerifDir, ".cache", fmt.Sprintf("journal-gen-%s-%d", prop, os.Getpid()))
	defer os.Remove(journal)
	cmd := exec.Command(bc.bin, prop, c.Tier, fmt.Sprint(c.Seed))
	cmd.Env = append(os.Environ(), "VERIF_JOURNAL="+journal, "GOLANG_PROTOBUF_REGISTRATION_CONFLICT=warn")
	var errb bytes.Buffer
	cmd.Stderr = &errb
	pipe, err := cmd.StdoutPipe()
	if err != nil {
		c.BrokenProof = append(c.BrokenProof, "runner: "+err.Error())
		return
	}
	if err := cmd.Start(); err != nil {
		c.BrokenProof = append(c.BrokenProof, "runner: "+err.Error())
		return
	}
	// watchdog: a case that does not return within the budget is a finding (non-termination), not a hang
	// of the check; the journal names the case that was running
	budget := 15 * time.Minute
	if c.Tier == "thorough" {
		budget = 45 * time.Minute
	}
	timedOut := false
	watchdog := time.AfterFunc(budget, func() { timedOut = true; cmd.Process.Kill() })
	defer watchdog.Stop()
	sc := bufio.NewScanner(pipe)
	sc.Buffer(make([]byte, 1<<20), 1<<28)
	for sc.Scan() {
		var rec map[string]interface{}
		if json.Unmarshal(sc.Bytes(), &rec) != nil {
			continue
		}
		switch rec["kind"] {
		case "violation":
			if rec["property"] != prop {
				continue
			}
			c.Violate(fw.Violation{Stream: str(rec["stream"]), Signature: str(rec["signature"]), What: str(rec["what"]), Input: rec["input"], Expected: str(rec["expected"]), Got: str(rec["got"])})
		case "count":
			nt, _ := rec["nontrivial"].(bool)
			sz, _ := rec["size"].(float64)
			c.Count(str(rec["stream"]), str(rec["key"]), str(rec["outcome"]), int(sz), nt)
		case "model":
			c.Model(str(rec["stream"]), str(rec["req"]), str(rec["impl"]))
		case "sample":
			c.Sample(rec["sample"])
		case "extra":
			n, _ := rec["n"].(float64)
			k := "runner_" + str(rec["key"])
			prev, _ := c.Extra[k].(int)
			c.Extra[k] = prev + int(n)
		case "note":
			c.Notes = append(c.Notes, str(rec["note"]))
		}
	}
	if err := cmd.Wait(); err != nil {
		j, _ := os.ReadFile(journal)
		if timedOut {
			c.Violate(fw.Violation{Stream: "runner", Signature: "generated-code/no-return-within-budget", What: fmt.Sprintf("the generated-code runner did not finish within %v; the journal names the case that was running", budget),
				Input: strings.TrimSpace(string(j)), Got: "killed by the watchdog"})
			return
		}
		c.Violate(fw.Violation{Stream: "runner", Signature: "generated-code/crash", What: "the generated-code runner died (fatal error inside generated code or the codec): " + err.Error(),
			Input: strings.TrimSpace(string(j)), Got: trunc(errb.String(), 1500)})
	}
}

func str(v interface{}) string {
	if s, ok := v.(string); ok {
		return s
	}
	return ""
}
