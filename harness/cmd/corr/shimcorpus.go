package main

// Corpus of real message types of the three runtimes (with and without generated fast-marshal
// methods) and the owning runtime's own functions, shared by C11, C12 and C18.

import (
	"fmt"

	gogoproto "github.com/gogo/protobuf/proto"
	gogodesc "github.com/gogo/protobuf/protoc-gen-gogo/descriptor"
	gogotypes "github.com/gogo/protobuf/types"
	golangproto "github.com/golang/protobuf/proto" //nolint
	dto "github.com/prometheus/client_model/go"
	"google.golang.org/protobuf/encoding/prototext"
	protov2 "google.golang.org/protobuf/proto"
	"google.golang.org/protobuf/types/known/durationpb"
	"google.golang.org/protobuf/types/known/structpb"
	"google.golang.org/protobuf/types/known/timestamppb"
	"google.golang.org/protobuf/types/known/wrapperspb"

	ex2gogo "github.com/CrowdStrike/csproto/example/proto2/gogo"
	ex2v1 "github.com/CrowdStrike/csproto/example/proto2/googlev1"
	ex2v2 "github.com/CrowdStrike/csproto/example/proto2/googlev2"
	ex3gogo "github.com/CrowdStrike/csproto/example/proto3/gogo"
	ex3v1 "github.com/CrowdStrike/csproto/example/proto3/googlev1"
	ex3v2 "github.com/CrowdStrike/csproto/example/proto3/googlev2"

	"csverif/internal/prng"
)

type runtimeOps struct {
	class     string // "gogo" | "googlev1" | "googlev2"
	marshal   func(m interface{}) ([]byte, error)
	unmarshal func(b []byte, m interface{}) error
	size      func(m interface{}) int
	clone     func(m interface{}) interface{}
	equal     func(a, b interface{}) bool
	text      func(m interface{}) string
}

var gogoOps = runtimeOps{class: "gogo",
	marshal:   func(m interface{}) ([]byte, error) { return gogoproto.Marshal(m.(gogoproto.Message)) },
	unmarshal: func(b []byte, m interface{}) error { return gogoproto.Unmarshal(b, m.(gogoproto.Message)) },
	size:      func(m interface{}) int { return gogoproto.Size(m.(gogoproto.Message)) },
	clone:     func(m interface{}) interface{} { return gogoproto.Clone(m.(gogoproto.Message)) },
	equal:     func(a, b interface{}) bool { return gogoproto.Equal(a.(gogoproto.Message), b.(gogoproto.Message)) },
	text:      func(m interface{}) string { return gogoproto.MarshalTextString(m.(gogoproto.Message)) },
}

var golangOps = runtimeOps{class: "googlev1",
	marshal:   func(m interface{}) ([]byte, error) { return golangproto.Marshal(m.(golangproto.Message)) },
	unmarshal: func(b []byte, m interface{}) error { return golangproto.Unmarshal(b, m.(golangproto.Message)) },
	size:      func(m interface{}) int { return golangproto.Size(m.(golangproto.Message)) },
	clone:     func(m interface{}) interface{} { return golangproto.Clone(m.(golangproto.Message)) },
	equal: func(a, b interface{}) bool {
		return golangproto.Equal(a.(golangproto.Message), b.(golangproto.Message))
	},
	text: func(m interface{}) string { return golangproto.MarshalTextString(m.(golangproto.Message)) },
}

var v2Ops = runtimeOps{class: "googlev2",
	marshal:   func(m interface{}) ([]byte, error) { return protov2.Marshal(m.(protov2.Message)) },
	unmarshal: func(b []byte, m interface{}) error { return protov2.Unmarshal(b, m.(protov2.Message)) },
	size:      func(m interface{}) int { return protov2.Size(m.(protov2.Message)) },
	clone:     func(m interface{}) interface{} { return protov2.Clone(m.(protov2.Message)) },
	equal:     func(a, b interface{}) bool { return protov2.Equal(a.(protov2.Message), b.(protov2.Message)) },
	text:      func(m interface{}) string { return prototext.Format(m.(protov2.Message)) },
}

type shimType struct {
	name   string
	fastM  bool // has generated fast-marshal methods
	ops    runtimeOps
	mt     int // expected csproto.MessageType: 1 gogo, 2 google v1, 3 google (v2)
	gen    func(r *prng.Rng) interface{}
	fresh  func() interface{}
	mutate func(m interface{}) // make it differ
}

func sp(s string) *string   { return &s }
func i32p(v int32) *int32   { return &v }
func u64p(v uint64) *uint64 { return &v }

func shimCorpus() []shimType {
	str := func(r *prng.Rng) string { return string(asciiBytes(r, r.Intn(12))) }
	return []shimType{
		{name: "gogo/fast-marshal/proto3.EmbeddedEvent", fastM: true, ops: gogoOps, mt: 1,
			gen: func(r *prng.Rng) interface{} {
				return &ex3gogo.EmbeddedEvent{ID: int32(r.U64Interesting()), Stuff: str(r), FavoriteNumbers: []int32{int32(r.Intn(100)), -3}, RandomThings: [][]byte{r.Bytes(r.Intn(4))}}
			},
			fresh: func() interface{} { return &ex3gogo.EmbeddedEvent{} }, mutate: func(m interface{}) { m.(*ex3gogo.EmbeddedEvent).ID ^= 1 }},
		{name: "gogo/fast-marshal/proto2.EmbeddedEvent", fastM: true, ops: gogoOps, mt: 1,
			gen: func(r *prng.Rng) interface{} {
				return &ex2gogo.EmbeddedEvent{ID: i32p(int32(r.U64Interesting())), Stuff: sp(str(r)), FavoriteNumbers: []int32{1, int32(r.Intn(9))}}
			},
			fresh: func() interface{} { return &ex2gogo.EmbeddedEvent{} }, mutate: func(m interface{}) { m.(*ex2gogo.EmbeddedEvent).Stuff = sp("changed!") }},
		{name: "gogo/plain/types.Timestamp", ops: gogoOps, mt: 1,
			gen: func(r *prng.Rng) interface{} {
				return &gogotypes.Timestamp{Seconds: int64(r.Intn(1 << 30)), Nanos: int32(r.Intn(1e9))}
			},
			fresh: func() interface{} { return &gogotypes.Timestamp{} }, mutate: func(m interface{}) { m.(*gogotypes.Timestamp).Seconds++ }},
		{name: "gogo/plain/types.StringValue", ops: gogoOps, mt: 1,
			gen:   func(r *prng.Rng) interface{} { return &gogotypes.StringValue{Value: str(r)} },
			fresh: func() interface{} { return &gogotypes.StringValue{} }, mutate: func(m interface{}) { m.(*gogotypes.StringValue).Value += "x" }},
		{name: "gogo/plain/descriptor.DescriptorProto(nested)", ops: gogoOps, mt: 1,
			gen: func(r *prng.Rng) interface{} {
				return &gogodesc.DescriptorProto{Name: sp(str(r)), Field: []*gogodesc.FieldDescriptorProto{{Name: sp(str(r)), Number: i32p(int32(1 + r.Intn(100)))}, {Name: sp("f2")}},
					NestedType: []*gogodesc.DescriptorProto{{Name: sp(str(r))}}}
			},
			fresh: func() interface{} { return &gogodesc.DescriptorProto{} }, mutate: func(m interface{}) { m.(*gogodesc.DescriptorProto).Name = sp("changed!") }},
		{name: "googlev1/plain/dto.LabelPair", ops: golangOps, mt: 2,
			gen:   func(r *prng.Rng) interface{} { return &dto.LabelPair{Name: sp(str(r)), Value: sp(str(r))} },
			fresh: func() interface{} { return &dto.LabelPair{} }, mutate: func(m interface{}) { m.(*dto.LabelPair).Name = sp("changed!") }},
		{name: "googlev1/plain/dto.Metric", ops: golangOps, mt: 2,
			gen: func(r *prng.Rng) interface{} {
				v := float64(r.Intn(1000)) / 8
				return &dto.Metric{Label: []*dto.LabelPair{{Name: sp(str(r)), Value: sp(str(r))}}, Gauge: &dto.Gauge{Value: &v}, TimestampMs: func() *int64 { x := int64(r.Intn(1 << 40)); return &x }()}
			},
			fresh: func() interface{} { return &dto.Metric{} }, mutate: func(m interface{}) { x := int64(-5); m.(*dto.Metric).TimestampMs = &x }},
		{name: "googlev1-api/fast-marshal/proto3.EmbeddedEvent", fastM: true, ops: v2Ops, mt: 3,
			gen: func(r *prng.Rng) interface{} {
				return &ex3v1.EmbeddedEvent{ID: int32(r.U64Interesting()), Stuff: str(r), FavoriteNumbers: []int32{7, int32(r.Intn(100))}}
			},
			fresh: func() interface{} { return &ex3v1.EmbeddedEvent{} }, mutate: func(m interface{}) { m.(*ex3v1.EmbeddedEvent).ID ^= 1 }},
		{name: "googlev1-api/fast-marshal/proto2.EmbeddedEvent", fastM: true, ops: v2Ops, mt: 3,
			gen: func(r *prng.Rng) interface{} {
				return &ex2v1.EmbeddedEvent{ID: i32p(int32(r.U64Interesting())), Stuff: sp(str(r))}
			},
			fresh: func() interface{} { return &ex2v1.EmbeddedEvent{} }, mutate: func(m interface{}) { m.(*ex2v1.EmbeddedEvent).Stuff = sp("changed!") }},
		{name: "googlev2/fast-marshal/proto3.EmbeddedEvent", fastM: true, ops: v2Ops, mt: 3,
			gen: func(r *prng.Rng) interface{} {
				return &ex3v2.EmbeddedEvent{ID: int32(r.U64Interesting()), Stuff: str(r), RandomThings: [][]byte{r.Bytes(r.Intn(5)), {}}}
			},
			fresh: func() interface{} { return &ex3v2.EmbeddedEvent{} }, mutate: func(m interface{}) { m.(*ex3v2.EmbeddedEvent).ID ^= 1 }},
		{name: "googlev2/fast-marshal/proto2.EmbeddedEvent", fastM: true, ops: v2Ops, mt: 3,
			gen: func(r *prng.Rng) interface{} {
				return &ex2v2.EmbeddedEvent{ID: i32p(int32(r.U64Interesting())), Stuff: sp(str(r))}
			},
			fresh: func() interface{} { return &ex2v2.EmbeddedEvent{} }, mutate: func(m interface{}) { m.(*ex2v2.EmbeddedEvent).Stuff = sp("changed!") }},
		{name: "googlev2/plain/timestamppb", ops: v2Ops, mt: 3,
			gen:   func(r *prng.Rng) interface{} { return timestamppb.New(timeFrom(r)) },
			fresh: func() interface{} { return &timestamppb.Timestamp{} }, mutate: func(m interface{}) { m.(*timestamppb.Timestamp).Seconds++ }},
		{name: "googlev2/plain/wrapperspb.BytesValue", ops: v2Ops, mt: 3,
			gen:   func(r *prng.Rng) interface{} { return wrapperspb.Bytes(r.Bytes(r.Intn(9))) },
			fresh: func() interface{} { return &wrapperspb.BytesValue{} }, mutate: func(m interface{}) { b := m.(*wrapperspb.BytesValue); b.Value = append(b.Value, 1) }},
		{name: "googlev2/plain/durationpb(empty)", ops: v2Ops, mt: 3,
			gen:   func(r *prng.Rng) interface{} { return &durationpb.Duration{} },
			fresh: func() interface{} { return &durationpb.Duration{} }, mutate: func(m interface{}) { m.(*durationpb.Duration).Nanos = 5 }},
		{name: "googlev2/plain/structpb.Value", ops: v2Ops, mt: 3,
			gen:   func(r *prng.Rng) interface{} { return structpb.NewStringValue(str(r)) },
			fresh: func() interface{} { return &structpb.Value{} }, mutate: func(m interface{}) { m.(*structpb.Value).Kind = &structpb.Value_NumberValue{NumberValue: 2} }},
	}
}

// values of unsupported types
type notAMessage struct{ A int }
type marshalOnly struct{}

func (marshalOnly) Marshal() ([]byte, error) { return []byte{8, 1}, nil }

type unsupportedCase struct {
	name string
	v    interface{}
}

func unsupportedValues() []unsupportedCase {
	var nilTS *timestamppb.Timestamp
	_ = nilTS
	return []unsupportedCase{
		{"nil", nil},
		{"struct value", notAMessage{1}},
		{"pointer to non-message", &notAMessage{2}},
		{"int", 42},
		{"string", "hello"},
		{"pointer to int", new(int)},
		{"slice", []byte{1, 2}},
		{"map", map[string]int{"a": 1}},
		{"func", func() {}},
		{"non-pointer message value (gogo)", gogotypes.Timestamp{Seconds: 1}},
	}
}

func describe(v interface{}) string { return fmt.Sprintf("%T", v) }
