package main

import (
	"bytes"
	"fmt"
	"os"
	"os/exec"
	"path/filepath"
	"sort"
	"strings"
	"time"

	"google.golang.org/protobuf/proto"
	"google.golang.org/protobuf/types/descriptorpb"
	"google.golang.org/protobuf/types/pluginpb"

	"csverif/internal/fw"
	"csverif/internal/genpipe"
)

func init() {
	for _, p := range []string{"C04", "C05", "C06", "C07", "C08", "C09", "C10", "C12", "C17"} {
		p := p
		props[p] = func(c *fw.Ctx) int { return runGenProp(c, p) }
	}
	props["C16"] = runC16
}

var genRules = map[string]string{
	"C04": "marshal: for every message type of the corpus and every variant, each field alone at boundary values (0-3 elements / zero, -1, min, max, -0.0, empty, 130-byte) on top of the minimal message, plus random value trees (depth <= 3, empty nested messages, nil-vs-empty Go slices/maps; one random value in four with required fields left unset at any depth, and per type with required fields the value with nothing set), every length-delimited scalar position alone (packed list of each kind, string, bytes) with a payload of exactly 2^14-1, 2^14 and 2^14+1 bytes (packed lists: widest encoding topped up with the narrowest, narrowest only, alternating): Size() = len(Marshal()), MarshalTo(make([]byte, Size())) writes the same bytes, no panic; non-trivial = non-empty encoding; first-use: for every message type that can carry proto2 extensions (a thin sample of the others), rounds of: csproto.VerifResetMsgTypeCache(), then 8 goroutines released together by a spin barrier, each calling Size/Marshal/MarshalTo (generated and through csproto) on a message of its own with >= 2 extensions set: no panic, Size() = len(bytes) = the sequential value",
	"C05": "marshal: the same cases as C04; the bytes of the generated Marshal() are decoded by dynamicpb from the schema alone and compared (proto.Equal: values and presence) with the value the message was built from; the same for what the generated MarshalTo() leaves in dest = scratch[:Size()] for scratch areas pre-filled with 0xff, 0x01, 0x7f and the previous case's output (a recycled buffer), the 0xff result also compared with the model (which fills the whole buffer); nested messages of the single-field cases are alternately minimal and filled (every scalar field set)",
	"C06": "unmarshal: random value trees encoded by the reference, then rewritten into other legal encodings (fields reordered, packed <-> unpacked, packed runs split, singleton packed runs, singular scalars twice, singular messages split in two, map entries reversed / with key or value omitted / key twice / unknown field inside, unknown fields of all wire types interleaved, recursively in nested messages); destination pre-filled with an unrelated message; result read back through the runtime's own encoder and compared with dynamicpb's decode of the same bytes",
	"C07": "unknown: the C06 encodings with unknown fields (four wire types; numbers: for message types with `reserved` declarations one time in three the first / last / a middle number of a reserved range, otherwise half of the time N-1 / N+1 of a declared field or declared extension N or a number at either end of an extension range — undeclared numbers INSIDE extension ranges included —, otherwise 900 … 2^29-1) at random positions, also inside nested messages and map entries; directed per message type: nothing but unknown fields (one of each wire type, a run), and for every declared field / extension N the message with N set and unknown fields N+1, N-1 (or, where those are declared, another undefined number) immediately before, between and immediately after the records of N, and the numbers around both ends of every extension range, and for every reserved range its first, middle and last number and the undefined numbers next to it with one record of each wire type before and after the nearest declared field; history after generated Unmarshal: the input buffer overwritten (safe mode), Size+Marshal (unknown bytes — of nested generated messages too — re-emitted byte for byte, counted by Size), the returned buffer overwritten and appended to by the caller, the bytes held by the message and the next Marshal compared again, MarshalTo into a buffer that held other data, csproto.SetExtension / ClearExtension / Has+GetExtension of a DECLARED extension (unknown fields untouched) or ClearAllExtensions (unknown fields outside every extension range untouched), a second Unmarshal into the same message (exactly the second input's unknown fields afterwards)",
	"C08": "unmarshal: the C06 encodings damaged by truncation, bit flips, continuation-bit inflation, junk, huge declared lengths, dangling continuation bytes: no panic, allocation sampled with runtime.MemStats, equality whenever both the generated code and dynamicpb accept",
	"C09": "histories: per message type, 4-12 steps drawn from reflective field mutation (grow / shrink / set / clear; nested messages — generated and runtime-served ones, as singular field, list element, map value or oneof member — changed in place), each step after a mutation / Size / runtime call observed by a Marshal, by a MarshalTo into a larger buffer that nobody called Size() for, or not at all (so that changes pile up), Size, the runtime's own Size+Marshal, Unmarshal of another message (half of them carrying an unknown field), Reset, Clone, and Marshal — each of these through the generated method, through csproto (Size, Marshal, Unmarshal, Reset, Clone) or through csproto.GrpcCodec — each Marshal compared with marshaling a fresh deep copy (obtained through the runtime's encoder) of the current contents, and every earlier Marshal result re-read after the later calls; the initial message and the Unmarshal payloads carry proto2 extensions (several at once), extensions are set / replaced / cleared through the owning runtime's API as a mutation step, payloads include nil and the empty slice, after every Unmarshal (three routes) the contents must be those the same call leaves in a new message, Marshal is repeated on the untouched message sequentially and from four goroutines at once and must return the same bytes, the same Unmarshal clause for runtime-served messages (gogo twin: XXX_Unmarshal arm; descriptorpb types: proto.Message arm), and the concurrent-first-use workload of C04 with the bytes compared; helpers: messages whose optional fields are assigned through csproto.Bool/Int32/…/String must not share memory",
	"C10": "clobber: safe-option variants only; after generated Unmarshal the input buffer is overwritten with 0xff and the message is read back through the runtime's encoder before and after; in two cases of three OTHER COMPONENTS RAN BEFORE the Unmarshal under test (1-3 of: lazyproto decode in safe / fast mode incl. nested results and Close, package-level lazyproto.Decode, a hand-written csproto.Decoder switched to fast mode that reads every field and is dropped — handed back if the type offers Release/Close/Free/Recycle —, a decoder whose mode is switched back and forth, generated Unmarshal of the enableunsafedecode variant); lazy-clobber: the string / bytes values (top level and one level down) obtained from a safe-mode lazy decode of the same bytes must not change when that decode's input buffer is overwritten and truncated",
	"C12": "extensions: for every generated message type with extension ranges (scalar kinds, enum, string/bytes, message) and each of gogo / golang v1 API / google v2: random histories of Set/Clear/ClearAll with a full observation (Has, Get, Range, ExtensionFieldNumber, marshaled bytes) after every step, the same history driven through the owning runtime's own API on a twin message, and an abstract map as the specification; descriptors of the other runtime family must be refused without modifying the message; descriptors of the SAME runtime that extend another message (same extension numbers, other types): every answer and the resulting message equal to the owning runtime's on a twin; every history and every mismatch probe is also run through the Lean model of the dispatcher (C12.runCs on the abstract store) and compared answer by answer; the corpus declares bounded extension ranges, single-number ranges, several ranges per message, ranges between ordinary fields and `to max`, with extensions at the first and the last number of every range and at 2^29-1, and three extendees sharing numbers",
	"C17": "required: proto2 types with required fields (top level, nested, repeated element, map value, oneof member); random subsets left unset; Marshal must fail exactly when dynamicpb's CheckInitialized fails; Unmarshal must fail exactly when the reference reports a missing required field; the empty message and the empty input included",
}

func runGenProp(c *fw.Ctx, prop string) int {
	c.Facts = extractFacts(c)
	c.Prove(prop)
	bc := buildCorpus(c)
	if bc != nil {
		var unusable []string
		for _, g := range bc.gens {
			if g.Variant.FM && !bc.usable(g) {
				unusable = append(unusable, g.Schema.ID+"/"+g.Variant.Name())
			}
		}
		sort.Strings(unusable)
		c.Extra["corpus_packages_excluded"] = unusable
		c.Extra["corpus_packages_run"] = len(bc.gens) - len(unusable)
		runGenerated(c, bc, prop)
	}
	if prop == "C09" {
		raceReaders(c)
	}
	if c.Tier == "thorough" {
		c.LeanChecker(prop)
	}
	return c.Finish(genRules[prop]+"; corpus: proto3 scalars/optionals/packed/unpacked/nested+recursive/oneofs/big field numbers, proto3 maps (11 key kinds, 17 value kinds), proto2 optional/required/repeated/packed/oneof/maps, proto2 extensions, well-known-type imports, special names, `reserved` numbers / ranges / names (proto3 and proto2, nested, next to extension ranges, `to max`, a message with nothing but reserved numbers); variants: google v2, gogo, golang v1 API with a file per message, google v2 with unsafe decoding, and — for every boolean option found in the generator's source (flags.BoolVar) that these do not cover — google v2 and golang v1 API with a file per message with that option switched on, for the schemas whose generated code the option changes, and gogo with the repeatable option specialname given two, three and six times (ascending, descending, mixed, with repetitions: genpipe.RepeatedShapes) wherever that yields other code than the base variant, plus schemas with two and with all six of Gogo's special field names (coverage: generator_bool_options_discovered, generator_value_options_discovered, generator_option_variants_with_other_code_than_the_base_variant)",
		append(trustedCommon, "protoc-gen-go / protoc-gen-gogo output and the runtimes' own codecs (used to build values and to read them back, never the generated methods)", "dynamicpb as the reference runtime (schema-only decoding)"),
		[]string{"packages of the corpus that the generator cannot produce or that do not compile are reported under C16 and excluded here (listed in corpus_packages_excluded)",
			"map iteration order: bytes are compared up to the order of map entries"})
}

// raceReaders: the concurrent-readers clause of C09 under the Go race detector — goroutines call
// csproto.Size / csproto.Marshal and the generated Size / Marshal on messages nobody mutates (example
// messages of the three runtimes incl. proto2 extensions, and runtime-only messages); every result must be
// the bytes computed up front.
func raceReaders(c *fw.Ctx) {
	scratch, err := os.MkdirTemp(filepath.Join(fw.VerifDir, ".cache"), "c09-")
	if err != nil {
		return
	}
	defer os.RemoveAll(scratch)
	bin := filepath.Join(scratch, "racecheck9")
	build := exec.Command("go", "build", "-race", "-tags", "verif", "-o", bin, "./cmd/racecheck9")
	build.Dir = filepath.Join(fw.VerifDir, "harness")
	if out, err := build.CombinedOutput(); err != nil {
		c.Notes = append(c.Notes, "race-enabled build not available: "+trunc(string(out), 200))
		return
	}
	iters := "300"
	if c.Tier == "thorough" {
		iters = "6000"
	}
	for _, g := range []string{"2", "8", "32"} {
		cmd := exec.Command(bin, g, iters)
		cmd.Env = append(os.Environ(), "GORACE=halt_on_error=1 exitcode=66")
		out, err := cmd.CombinedOutput()
		desc := "racecheck9 goroutines=" + g + " iterations=" + iters
		outcome := "clean"
		if err != nil {
			outcome = "failed"
			sig, what := "readers/race-detector", "the Go race detector reported a data race between concurrent Size/Marshal calls on a message nobody mutates"
			if !strings.Contains(string(out), "DATA RACE") {
				sig, what = "readers/wrong-bytes", "a concurrent Size/Marshal call on a message nobody mutates returned something else than the bytes of its contents"
			}
			c.Violate(fw.Violation{Stream: "readers", Signature: sig, What: what, Input: desc, Got: trunc(string(out), 3000)})
		}
		c.Count("readers", desc, outcome, 1, true)
	}
}

// ---------- C16 ----------

func runC16(c *fw.Ctx) int {
	c.Facts = extractFacts(c)
	c.Prove("C16")
	bc := buildCorpus(c)
	if bc != nil {
		for _, g := range bc.gens {
			if !g.Variant.FM {
				continue
			}
			id := g.Schema.ID + "/" + g.Variant.Name()
			desc := map[string]interface{}{"schema": g.Schema.ID, "variant": g.Variant.Name(), "parameter": g.Variant.FMParam()}
			outcome := "ok"
			switch {
			case strings.HasPrefix(g.GenError, "runtime plug-in"):
				outcome = "schema-rejected-by-runtime-plugin"
				c.Notes = append(c.Notes, id+": "+g.GenError)
			case g.GenError != "":
				outcome = "plugin-error"
				c.Violate(fw.Violation{Stream: "generate", Signature: "gen/plugin-error/" + g.Schema.ID, What: "the plug-in failed on a valid schema of the supported feature set", Input: desc, Got: trunc(g.GenError, 400)})
			case !bc.compiled[id]:
				outcome = "does-not-compile"
				c.Violate(fw.Violation{Stream: "generate", Signature: "gen/does-not-compile/" + g.Schema.ID, What: "the generated code does not compile together with the runtime's message types", Input: desc, Got: bc.buildErr[id]})
			default:
				// file names: one file per documented name, each written once
				want := expectedFileNames(g)
				got := append([]string{}, g.FMFiles...)
				sort.Strings(got)
				dup := ""
				for i := 1; i < len(got); i++ {
					if got[i] == got[i-1] {
						dup = got[i]
					}
				}
				if dup != "" {
					outcome = "file-written-twice"
					c.Violate(fw.Violation{Stream: "generate", Signature: "gen/file-names/same-lowercase-short-name", What: "two messages of the file are written to one output file name (the response names the same file twice; protoc rejects it)", Input: desc, Expected: "distinct names", Got: dup})
				} else if strings.Join(got, ",") != strings.Join(want, ",") {
					outcome = "file-names"
					c.Violate(fw.Violation{Stream: "generate", Signature: "gen/file-names/" + g.Variant.Name(), What: "output files are not written once each under their documented, distinct names", Input: desc, Expected: strings.Join(want, ","), Got: strings.Join(got, ",")})
				}
				// determinism: identical request, different working directory / environment / parallelism
				if again := rerun(bc.plugins, g); again != "" && dup == "" {
					outcome = "nondeterministic"
					c.Violate(fw.Violation{Stream: "generate", Signature: "gen/nondeterministic", What: "two runs on identical requests produced different output", Input: desc, Got: again})
				}
			}
			c.Count("generate", id, outcome, len(g.Files), true)
		}
		tMulti := time.Now()
		multiFileRequests(c, bc)
		c.Extra["multi_file_requests_s"] = time.Since(tMulti).Seconds()
		c.Sample(map[string]interface{}{"stream": "generate", "schemas": len(genpipe.Corpus()), "variants": len(fmVariants) - 1})
	}
	if c.Tier == "thorough" {
		c.LeanChecker("C16")
	}
	return c.Finish("generate: the plug-in built from /repo is run through hand-made CodeGeneratorRequests on every schema of the corpus x {google v2, gogo (apiversion=v1, specialname=Size), golang v1 API with filepermessage=true, google v2 with enableunsafedecode=true, every boolean option found in the generator's source switched on, and — the repeatable value option (flags.Var) specialname — gogo with two, three and all six of the field names Gogo's plug-ins munge (Equal, GoString, MarshalTo, ProtoSize, Size, VerboseEqual) given as separate specialname= tokens in ascending order, in descending order, in an order that is neither, and with one name twice; schemas with two and with all six of these names as fields}: plug-in error, go build of the output together with the runtime's .pb.go, file-name set, and byte comparison of a second run under a different working directory, environment and GOMAXPROCS; requests naming several .proto files (the whole corpus per variant in corpus order and in reverse order, imported files with their own or the same Go package, extensions and shared types on both sides; the two-file requests of the corpus): every file must be what the one-file request for its .proto produced, repeated runs byte-identical; fact: no function of the plug-in writes to a package-level variable; non-trivial = every (schema, variant) pair",
		append(trustedCommon, "the Go compiler is the oracle for 'valid Go that compiles' (not modelled)"),
		[]string{"PARTIAL: 'compiles' is established on the corpus by the Go compiler (exploration), not by proof; the Lean part covers the generation plan (naming, routing tables)"})
}

func expectedFileNames(g *genpipe.Generated) []string {
	out := expectedFileNamesOf(g, g.Schema, strings.TrimSuffix(g.FileProto.GetName(), ".proto"))
	if g.Schema.Dep != nil && g.Schema.GenDep {
		// the imported file was handed to the generator in the same request
		out = append(out, expectedFileNamesOf(g, g.Schema.Dep, strings.TrimSuffix(g.Schema.DepName(g.FileProto.GetName()), ".proto"))...)
		sort.Strings(out)
	}
	return out
}

func expectedFileNamesOf(g *genpipe.Generated, sch *genpipe.Schema, prefix string) []string {
	if !g.Variant.PerMessage {
		if len(sch.Messages) == 0 {
			return nil // nothing to generate code for: no file (as in file-per-message mode)
		}
		return []string{prefix + ".pb.fm.go"}
	}
	var names []string
	collectMessages(sch.Messages, "", &names)
	var out []string
	for _, n := range names {
		short := n
		if i := strings.LastIndex(n, "."); i >= 0 {
			short = n[i+1:]
		}
		out = append(out, prefix+"_"+strings.ToLower(short)+".pb.fm.go")
	}
	sort.Strings(out)
	return out
}

// oneFileOutputs: what the plug-in answers when it is asked for ONE of the .proto files of g at a time (a process of
// its own per file, the same descriptors in the request): output file name -> content.
func oneFileOutputs(pl *genpipe.Plugins, g *genpipe.Generated) (map[string]string, error) {
	out := map[string]string{}
	if len(g.FMToGen) < 2 {
		for _, n := range g.FMFiles {
			out[n] = g.Files[n]
		}
		return out, nil
	}
	for _, one := range g.FMToGen {
		req := &pluginpb.CodeGeneratorRequest{FileToGenerate: []string{one}, Parameter: proto.String(g.Variant.FMParam()),
			ProtoFile: append(append([]*descriptorpb.FileDescriptorProto{}, g.Deps...), g.FileProto), CompilerVersion: &pluginpb.Version{Major: proto.Int32(3), Minor: proto.Int32(21), Patch: proto.Int32(0)}}
		resp, err := genpipe.RunPlugin(pl.FastMarshal, req)
		if err != nil {
			return nil, err
		}
		if resp.Error != nil {
			return nil, fmt.Errorf("%s: %s", one, resp.GetError())
		}
		for _, f := range resp.File {
			if _, dup := out[f.GetName()]; dup {
				return nil, fmt.Errorf("%s written by two one-file requests", f.GetName())
			}
			out[f.GetName()] = f.GetContent()
		}
	}
	return out, nil
}

// multiFileRequests: ONE request that names many .proto files (protoc a.proto b.proto …), per variant: the raw response
// bytes of repeated runs (different GOMAXPROCS / environment) must be identical, and every file must be what the
// one-file request for its .proto produced, under the same name — whatever was generated before it in the same
// process. The request names unrelated files AND files that import each other (another Go package, the same Go
// package, extensions on both sides, types used on both sides), once in corpus order and once with the schemas in
// reverse order; the two-file requests of the corpus (imported file + importing file) are compared file by file with
// the one-file requests too.
func multiFileRequests(c *fw.Ctx, bc *builtCorpus) {
	byVariant := map[string][]*genpipe.Generated{}
	var order []string
	// (option variants: the schemas for which the option made no difference to the one-file request take part too, in
	// corpus order — whether it makes a difference after other files is the question here)
	corpusAt := map[string]int{}
	for i, s := range genpipe.Corpus() {
		corpusAt[s.ID] = i
	}
	all := append(append([]*genpipe.Generated{}, bc.gens...), bc.sameAsBase...)
	sort.SliceStable(all, func(i, j int) bool { return corpusAt[all[i].Schema.ID] < corpusAt[all[j].Schema.ID] })
	for _, g := range all {
		if !g.Variant.FM || g.GenError != "" || g.Schema.ID == "samename" || g.Schema.ID == "shortnames" {
			continue
		}
		if _, ok := byVariant[g.Variant.Name()]; !ok {
			order = append(order, g.Variant.Name())
		}
		byVariant[g.Variant.Name()] = append(byVariant[g.Variant.Name()], g)
	}
	version := &pluginpb.Version{Major: proto.Int32(3), Minor: proto.Int32(21), Patch: proto.Int32(0)}
	for _, vn := range order {
		gs := byVariant[vn]
		if len(gs) < 3 && !(len(gs) == 2 && gs[0].Variant.Rep != "") {
			continue
		}
		want := map[string]string{}
		usable := gs[:0:0]
		for _, g := range gs {
			single, err := oneFileOutputs(bc.plugins, g)
			id := g.Schema.ID + "/" + vn
			if err != nil {
				c.Violate(fw.Violation{Stream: "generate", Signature: "gen/multi-file/plugin-error", What: "the plug-in failed on a one-file request for a file it generates in a request naming two files",
					Input: map[string]interface{}{"schema": g.Schema.ID, "variant": vn, "files_to_generate": g.FMToGen}, Got: trunc(err.Error(), 400)})
				c.Count("generate", "pair/"+id, "plugin-error", len(g.FMToGen), true)
				continue
			}
			usable = append(usable, g)
			if len(g.FMToGen) > 1 {
				// the request of the corpus named the imported file and the importing one
				outcome := "ok"
				seen := map[string]bool{}
				for _, n := range g.FMFiles {
					if w, ok := single[n]; !ok || w != g.Files[n] || seen[n] {
						outcome = "differs-from-single-file-request"
						c.Violate(fw.Violation{Stream: "generate", Signature: "gen/multi-file/differs", What: "a file generated in a request that names an imported .proto file and the file importing it is not the file (name, content, once) the one-file request produced",
							Input: map[string]interface{}{"schema": g.Schema.ID, "variant": vn, "files_to_generate": g.FMToGen, "parameter": g.Variant.FMParam()}, Expected: firstDiff(w, g.Files[n], true), Got: n + ": " + firstDiff(w, g.Files[n], false)})
						break
					}
					seen[n] = true
				}
				if outcome == "ok" && len(seen) != len(single) {
					outcome = "differs-from-single-file-request"
					c.Violate(fw.Violation{Stream: "generate", Signature: "gen/multi-file/differs", What: "a request that names an imported .proto file and the file importing it does not produce all the files of the one-file requests",
						Input: map[string]interface{}{"schema": g.Schema.ID, "variant": vn, "files_to_generate": g.FMToGen}, Expected: fmt.Sprint(len(single)), Got: fmt.Sprint(len(seen))})
				}
				c.Count("generate", "pair/"+id, outcome, len(g.FMToGen), true)
			}
			for n, content := range single {
				want[n] = content
			}
		}
		gs = usable
		for pass, label := range []string{"multi/", "multi-reversed/"} {
			sel := append([]*genpipe.Generated{}, gs...)
			if pass == 1 {
				for i, j := 0, len(sel)-1; i < j; i, j = i+1, j-1 {
					sel[i], sel[j] = sel[j], sel[i]
				}
			}
			req := &pluginpb.CodeGeneratorRequest{Parameter: proto.String(gs[0].Variant.FMParam()), CompilerVersion: version}
			have := map[string]bool{}
			for _, g := range sel {
				// imported files first (the well-known ones are shared between schemas)
				for _, fd := range append(append([]*descriptorpb.FileDescriptorProto{}, g.Deps...), g.FileProto) {
					if !have[fd.GetName()] {
						have[fd.GetName()] = true
						req.ProtoFile = append(req.ProtoFile, fd)
					}
				}
				req.FileToGenerate = append(req.FileToGenerate, g.FMToGen...)
			}
			desc := map[string]interface{}{"variant": vn, "files_to_generate": req.FileToGenerate, "parameter": gs[0].Variant.FMParam()}
			in, _ := proto.Marshal(req)
			var first []byte
			outcome := "ok"
			procsList := []string{"16", "1", "4", "16", "2", "8"}
			if pass == 1 {
				procsList = []string{"16", "1"}
			}
			if gs[0].Variant.Rep != "" {
				procsList = []string{"16"} // (run-to-run determinism of big requests: the fixed variants)
			}
			for i, procs := range procsList {
				cmd := exec.Command(bc.plugins.FastMarshal)
				cmd.Dir = os.TempDir()
				cmd.Env = append(os.Environ(), "GOMAXPROCS="+procs, "VERIF_NOISE="+fmt.Sprint(i))
				cmd.Stdin = strings.NewReader(string(in))
				out, err := cmd.Output()
				if err != nil {
					outcome = "plugin-error"
					c.Violate(fw.Violation{Stream: "generate", Signature: "gen/multi-file/plugin-error", What: "the plug-in failed on a request naming several files", Input: desc, Got: err.Error()})
					break
				}
				if i == 0 {
					first = out
					resp := &pluginpb.CodeGeneratorResponse{}
					if proto.Unmarshal(out, resp) != nil || resp.Error != nil {
						outcome = "plugin-error"
						c.Violate(fw.Violation{Stream: "generate", Signature: "gen/multi-file/plugin-error", What: "the plug-in failed on a request naming several files", Input: desc, Got: resp.GetError()})
						break
					}
					seen := map[string]bool{}
					for _, f := range resp.File {
						if w, ok := want[f.GetName()]; !ok || w != f.GetContent() || seen[f.GetName()] {
							outcome = "differs-from-single-file-request"
							c.Violate(fw.Violation{Stream: "generate", Signature: "gen/multi-file/differs", What: "a file generated in a request that names several .proto files is not the file (name, content, once) the one-file request produced", Input: desc,
								Expected: firstDiff(w, f.GetContent(), true), Got: f.GetName() + ": " + firstDiff(w, f.GetContent(), false)})
							break
						}
						seen[f.GetName()] = true
					}
					if outcome == "ok" && len(seen) != len(want) {
						outcome = "differs-from-single-file-request"
						c.Violate(fw.Violation{Stream: "generate", Signature: "gen/multi-file/differs", What: "a request that names several .proto files does not produce all the files of the one-file requests", Input: desc, Expected: fmt.Sprint(len(want)), Got: fmt.Sprint(len(seen))})
					}
					continue
				}
				if !bytes.Equal(out, first) {
					outcome = "nondeterministic"
					c.Violate(fw.Violation{Stream: "generate", Signature: "gen/multi-file/nondeterministic", What: "identical requests naming several .proto files produced different response bytes (e.g. another file order)", Input: desc, Got: fmt.Sprintf("run %d (GOMAXPROCS=%s) differs from run 0", i, procs)})
					break
				}
			}
			c.Count("generate", label+vn, outcome, len(req.FileToGenerate), true)
		}
	}
}

// firstDiff: the first line in which two generated files differ (want side / got side)
func firstDiff(want, got string, wantSide bool) string {
	wl, gl := strings.Split(want, "\n"), strings.Split(got, "\n")
	for i := 0; i < len(wl) || i < len(gl); i++ {
		var w, g string
		if i < len(wl) {
			w = wl[i]
		}
		if i < len(gl) {
			g = gl[i]
		}
		if w != g {
			if wantSide {
				return fmt.Sprintf("line %d: %s", i+1, strings.TrimSpace(w))
			}
			return fmt.Sprintf("line %d: %s", i+1, strings.TrimSpace(g))
		}
	}
	return "(no difference)"
}

func rerun(pl *genpipe.Plugins, g *genpipe.Generated) string {
	req := &pluginpb.CodeGeneratorRequest{FileToGenerate: g.FMToGen, Parameter: proto.String(g.Variant.FMParam()),
		ProtoFile: append(append([]*descriptorpb.FileDescriptorProto{}, g.Deps...), g.FileProto), CompilerVersion: &pluginpb.Version{Major: proto.Int32(3), Minor: proto.Int32(21), Patch: proto.Int32(0)}}
	in, _ := proto.Marshal(req)
	cmd := exec.Command(pl.FastMarshal)
	cmd.Dir = os.TempDir()
	cmd.Env = append(os.Environ(), "GOMAXPROCS=1", "TZ=Asia/Tokyo", "PWD="+os.TempDir(), "VERIF_NOISE=1")
	cmd.Stdin = strings.NewReader(string(in))
	out, err := cmd.Output()
	if err != nil {
		return "second run failed: " + err.Error()
	}
	resp := &pluginpb.CodeGeneratorResponse{}
	if proto.Unmarshal(out, resp) != nil {
		return "second run: bad response"
	}
	for i, f := range resp.File {
		if g.Files[f.GetName()] != f.GetContent() {
			return fmt.Sprintf("file %s differs between two runs", f.GetName())
		}
		if i < len(g.FMFiles) && g.FMFiles[i] != f.GetName() {
			return fmt.Sprintf("the files come in another order: %s where the first run had %s", f.GetName(), g.FMFiles[i])
		}
	}
	if len(resp.File) != len(g.FMFiles) {
		return "different number of files between two runs"
	}
	return ""
}
