package main

import (
	"bytes"
	"encoding/hex"
	"fmt"
	"os"
	"os/exec"
	"path/filepath"
	"strconv"
	"strings"

	"github.com/CrowdStrike/csproto/prototest"
	"google.golang.org/protobuf/encoding/protowire"

	"csverif/internal/fw"
	"csverif/internal/prng"
)

func init() { props["C20"] = runC20 }

var spaceRunes = []rune{' ', ' ', ' ', '\t', '\t', '\r', '\v', '\f', 0x85, 0xA0, 0x1680, 0x2003, 0x2028, 0x3000}

// renderAnnotated renders b with random spacing, comments and line breaks. Line breaks are only
// placed between bytes; spaces/tabs/comments anywhere (a comment ends the line).
func renderAnnotated(r *prng.Rng, b []byte) string {
	var sb strings.Builder
	ws := func(max int) {
		for i := r.Intn(max + 1); i > 0; i-- {
			sb.WriteRune(spaceRunes[r.Intn(len(spaceRunes))])
		}
	}
	comment := func() {
		sb.WriteByte(';')
		n := r.Intn(12)
		for i := 0; i < n; i++ {
			c := rune(32 + r.Intn(95))
			if r.Chance(1, 8) {
				c = []rune{';', 'é', 'ß', '0', 'f', 'Z', 0x3000}[r.Intn(7)]
			}
			sb.WriteRune(c)
		}
		sb.WriteByte('\n')
	}
	digits := "0123456789abcdef"
	if r.Bool() {
		digits = "0123456789ABCDEF"
	}
	for _, x := range b {
		ws(2)
		if r.Chance(1, 10) {
			comment()
			ws(2)
		}
		d := digits
		if r.Chance(1, 6) {
			d = "0123456789abcdef"
		}
		sb.WriteByte(d[x>>4])
		if r.Chance(1, 6) {
			ws(2) // spaces between the two digits of a byte are legal
		}
		sb.WriteByte(d[x&15])
		switch r.Intn(8) {
		case 0:
			sb.WriteByte('\n')
		case 1:
			ws(1)
			comment()
		case 2:
			sb.WriteString("\r\n")
		}
	}
	ws(2)
	if r.Chance(1, 4) {
		comment()
	}
	if r.Chance(1, 4) {
		sb.WriteString("\n\n")
	}
	return sb.String()
}

func hexCase(c *fw.Ctx) {
	r := c.Rng
	b := r.Bytes(r.Intn(40))
	text := renderAnnotated(r, b)
	kind := "valid"
	switch r.Intn(10) {
	case 0: // corrupt: a non-hex, non-space character outside any comment
		if r.Bool() {
			// anywhere outside a comment (also between / instead of the digits of a byte), any character of Unicode
			text = corruptOutsideComment(r, text)
		} else {
			runes := []rune(text)
			pos := r.Intn(len(runes) + 1)
			bad := []rune{'g', 'x', 'Z', '-', ':', '#', '/', 'é', '.', ','}[r.Intn(10)]
			if r.Bool() {
				bad = badRune(r)
			}
			// make sure it is outside a comment: put it at the start of a line
			for pos > 0 && runes[pos-1] != '\n' {
				pos--
			}
			text = string(runes[:pos]) + string(bad) + string(runes[pos:])
		}
		kind = "corrupt-char"
	case 1: // odd number of digits on one line
		text = text + "\n a"
		kind = "corrupt-odd"
	case 2: // line break between the two digits of a byte
		text = text + "\n0\n8"
		kind = "split-byte"
	}
	hexEval(c, b, text, kind)
}

// hexLongCase: one physical line longer than 64 KiB (a blob written on one line), between short lines,
// optionally followed by a line that is not hex.
func hexLongCase(c *fw.Ctx, n int, spaced, garbage bool) {
	b := append([]byte{0x08, 0x01}, c.Rng.Bytes(n)...)
	b = append(b, 0x10, 0x02)
	var sb strings.Builder
	sb.WriteString("08 01 ; header\n")
	for _, x := range b[2 : 2+n] {
		fmt.Fprintf(&sb, "%02x", x)
		if spaced {
			sb.WriteByte(' ')
		}
	}
	sb.WriteString("\n10 02 ; trailer\n")
	kind := "valid"
	if garbage {
		sb.WriteString("zz not hex\n")
		kind = "corrupt-char"
	}
	hexEval(c, b, sb.String(), kind)
}

func hexEval(c *fw.Ctx, b []byte, text, kind string) {
	r := c.Rng
	c.Journal("C20 hex " + trunc(hex.EncodeToString([]byte(text)), 2000))
	got, err := func() (b []byte, err error) {
		defer func() {
			if x := recover(); x != nil {
				err = fmt.Errorf("PANIC %v", x)
			}
		}()
		return prototest.ParseAnnotatedHex(text)
	}()
	impl := "err"
	if err == nil {
		impl = "ok " + hexs(got)
	}
	c.Model("hex", "T hex "+hexs([]byte(text)), impl)
	outcome := kind + "/" + strings.SplitN(impl, " ", 2)[0]
	hexRefOracle(c, text, got, err)
	switch {
	case err != nil && strings.HasPrefix(err.Error(), "PANIC"):
		c.Violate(fw.Violation{Stream: "hex", Signature: "hex/panic", What: "ParseAnnotatedHex panicked", Input: text, Got: err.Error()})
	case kind == "valid" && (err != nil || !bytes.Equal(got, b)):
		c.Violate(fw.Violation{Stream: "hex", Signature: "hex/valid-rendering", What: "ParseAnnotatedHex(render(b)) != b", Input: map[string]string{"text": text, "bytes": hexs(b)}, Expected: "ok " + hexs(b), Got: impl})
	case kind != "valid" && err == nil:
		c.Violate(fw.Violation{Stream: "hex", Signature: "hex/accepts-" + kind, What: "text containing something other than hex digits / whitespace / comments was accepted", Input: text, Got: impl})
	}
	c.Count("hex", text, outcome, len(text), len(b) > 0)
	if r.Intn(200) == 0 {
		c.Sample(map[string]interface{}{"stream": "hex", "text": text, "bytes": hexs(b)})
	}
}

// ---- protodump ----

type dumpMsg struct {
	data  []byte
	paths [][]int // paths of length-delimited fields that hold nested messages
	strs  [][]int // paths of fields that hold printable strings
	all   [][]int // paths of all length-delimited fields
}

func genDumpMessage(r *prng.Rng, depth int, parent []int, dm *dumpMsg) []byte {
	var msg []byte
	n := 1 + r.Intn(4)
	for i := 0; i < n; i++ {
		tag := 1 + r.Intn(6)
		if r.Chance(1, 8) {
			tag = genTag(r)
		}
		num := protowire.Number(tag)
		path := append(append([]int{}, parent...), tag)
		switch r.Intn(6) {
		case 0:
			msg = protowire.AppendTag(msg, num, protowire.VarintType)
			msg = protowire.AppendVarint(msg, r.U64Interesting())
		case 1:
			msg = protowire.AppendTag(msg, num, protowire.Fixed32Type)
			msg = protowire.AppendFixed32(msg, uint32(r.U64Interesting()))
		case 2:
			msg = protowire.AppendTag(msg, num, protowire.Fixed64Type)
			msg = protowire.AppendFixed64(msg, r.U64Interesting())
		case 3:
			s := asciiBytes(r, r.Intn(12))
			msg = protowire.AppendTag(msg, num, protowire.BytesType)
			msg = protowire.AppendBytes(msg, s)
			dm.strs = append(dm.strs, path)
			dm.all = append(dm.all, path)
		case 4:
			msg = protowire.AppendTag(msg, num, protowire.BytesType)
			msg = protowire.AppendBytes(msg, r.Bytes(r.Intn(10)))
			dm.all = append(dm.all, path)
		default:
			if depth < 3 {
				inner := genDumpMessage(r, depth+1, path, dm)
				msg = protowire.AppendTag(msg, num, protowire.BytesType)
				msg = protowire.AppendBytes(msg, inner)
				dm.paths = append(dm.paths, path)
				dm.all = append(dm.all, path)
			}
		}
	}
	return msg
}

func pathStr(p []int) string {
	ss := make([]string, len(p))
	for i, t := range p {
		ss[i] = strconv.Itoa(t)
	}
	return strings.Join(ss, ".")
}

// refDump is the reference rendering: a protowire walk producing what protodump documents.
func refDump(data []byte, parent []int, indent int, expand, strs map[string]bool, out *bytes.Buffer) bool {
	prefix := strings.Repeat(" ", 2*indent)
	wtNames := map[protowire.Type]string{0: "varint", 1: "fixed64", 2: "length-delimited", 5: "fixed32"}
	for len(data) > 0 {
		num, typ, n := protowire.ConsumeTag(data)
		if n < 0 {
			return false
		}
		if num > protowire.MaxValidNumber {
			// protowire.ConsumeTag lets field numbers up to 2^31-1 through; the wire format ends at 2^29-1, so
			// this input is malformed (the implementation and the model report "invalid tag value")
			return false
		}
		data = data[n:]
		name, ok := wtNames[typ]
		if !ok {
			name = "unknown"
		}
		fmt.Fprintf(out, "%stag: %d, wire type: %s\n", prefix, num, name)
		path := append(append([]int{}, parent...), int(num))
		switch typ {
		case protowire.VarintType:
			v, n := protowire.ConsumeVarint(data)
			if n < 0 {
				return false
			}
			data = data[n:]
			fmt.Fprintf(out, "%s  varint: %d\n", prefix, int64(v))
		case protowire.Fixed32Type:
			v, n := protowire.ConsumeFixed32(data)
			if n < 0 {
				return false
			}
			data = data[n:]
			fmt.Fprintf(out, "%s  fixed32: %d\n", prefix, v)
		case protowire.Fixed64Type:
			v, n := protowire.ConsumeFixed64(data)
			if n < 0 {
				return false
			}
			data = data[n:]
			fmt.Fprintf(out, "%s  fixed64: %d\n", prefix, v)
		case protowire.BytesType:
			v, n := protowire.ConsumeBytes(data)
			if n < 0 {
				return false
			}
			data = data[n:]
			fmt.Fprintf(out, "%s  length: %d\n", prefix, len(v))
			if strs[pathStr(path)] {
				fmt.Fprintf(out, "%s  string: %s\n", prefix, v)
			} else {
				hs := make([]string, len(v))
				for i, b := range v {
					hs[i] = fmt.Sprintf("0x%02X", b)
				}
				fmt.Fprintf(out, "%s  [%s]\n", prefix, strings.Join(hs, ","))
				if expand[pathStr(path)] {
					if !refDump(v, path, indent+1, expand, strs, out) {
						return false
					}
				}
			}
		default:
			return false
		}
	}
	return true
}

type dumper struct {
	bin     string
	scratch string
}

func (d *dumper) run(data []byte, expandFlags, stringFlags []string, via string) (stdout []byte, ok bool, stderr string) {
	var args []string
	for _, e := range expandFlags {
		args = append(args, "-expand", e)
	}
	for _, s := range stringFlags {
		args = append(args, "-strings", s)
	}
	file := filepath.Join(d.scratch, "msg.bin")
	os.WriteFile(file, data, 0o644)
	var cmd *exec.Cmd
	switch via {
	case "file":
		cmd = exec.Command(d.bin, append(args, "-file", file)...)
	case "redirect":
		cmd = exec.Command(d.bin, args...)
		f, _ := os.Open(file)
		defer f.Close()
		cmd.Stdin = f
	default: // pipe
		cmd = exec.Command(d.bin, args...)
		cmd.Stdin = bytes.NewReader(data) // exec connects a pipe for non-*os.File readers
	}
	var so, se bytes.Buffer
	cmd.Stdout, cmd.Stderr = &so, &se
	err := cmd.Run()
	return so.Bytes(), err == nil, se.String()
}

func flagArg(vals []string) string {
	if len(vals) == 0 {
		return "-"
	}
	hs := make([]string, len(vals))
	for i, v := range vals {
		hs[i] = hexs([]byte(v))
		if v == "" {
			hs[i] = "-"
		}
	}
	return strings.Join(hs, "+")
}

func dumpCase(c *fw.Ctx, d *dumper) {
	r := c.Rng
	dm := &dumpMsg{}
	data := genDumpMessage(r, 0, nil, dm)
	kind := "valid"
	switch r.Intn(8) {
	case 0:
		if len(data) > 0 {
			data = data[:r.Intn(len(data))]
			kind = "truncated"
		}
	case 1:
		if len(data) > 0 {
			data[r.Intn(len(data))] ^= byte(1 << uint(r.Intn(8)))
			kind = "bitflip"
		}
	case 2:
		data = r.Bytes(r.Intn(16))
		kind = "junk"
	}
	dumpRun(c, d, "dump", kind, data, dm, dumpOpt{2, 3, 1, 2, false})
}

// dumpRun chooses the -expand / -strings path sets for a generated message (each nested path with
// probability expNum/expDen, each printable path with 1/2, plus decoys), runs protodump and compares
// with the model and with the reference rendering.
type dumpOpt struct {
	expNum, expDen int  // probability with which a nested-message path is requested for expansion
	strNum, strDen int  // probability with which a printable field's path is requested as a string
	plain          bool // no decoys, no expansion of fields that hold no message
}

func dumpRun(c *fw.Ctx, d *dumper, stream, kind string, data []byte, dm *dumpMsg, opt dumpOpt) {
	r := c.Rng
	expNum, expDen := opt.expNum, opt.expDen
	// choose path sets: subsets of the true nested/string paths, plus decoys
	expand, strs := map[string]bool{}, map[string]bool{}
	var expandList, strList []string
	for _, p := range dm.paths {
		if r.Chance(expNum, expDen) && !expand[pathStr(p)] {
			expand[pathStr(p)] = true
			expandList = append(expandList, pathStr(p))
		}
	}
	for _, p := range dm.strs {
		if r.Chance(opt.strNum, opt.strDen) && !strs[pathStr(p)] {
			strs[pathStr(p)] = true
			strList = append(strList, pathStr(p))
		}
	}
	if !opt.plain && r.Chance(1, 5) && len(dm.all) > 0 { // expand something that is not a message
		p := dm.all[r.Intn(len(dm.all))]
		if !strs[pathStr(p)] {
			expand[pathStr(p)] = true
			expandList = append(expandList, pathStr(p))
		}
	}
	if !opt.plain && r.Chance(1, 4) { // decoys: paths that do not occur, a prefix, the wildcard-looking 0
		for _, dcy := range []string{"9.9", "0", "1", "2.0"} {
			if r.Bool() && !expand[dcy] && !strs[dcy] {
				expandList = append(expandList, dcy)
				expand[dcy] = true
			}
		}
	}
	leaf := map[string]bool{} // length-delimited fields that hold no message
	for _, p := range dm.all {
		leaf[pathStr(p)] = true
	}
	for _, p := range dm.paths {
		delete(leaf, pathStr(p))
	}
	if !opt.plain && r.Chance(1, 3) && len(dm.all) > 0 {
		// decoys that are easily confused with a path that does occur (a prefix, an extension, a neighbouring
		// tag, the same digits split differently, ...), requested for expansion or as strings
		for i := 1 + r.Intn(3); i > 0; i-- {
			for _, q := range confusablePaths(r, dm.all[r.Intn(len(dm.all))]) {
				if !r.Chance(1, 3) {
					continue
				}
				if r.Bool() {
					// (expanding a field that holds no message mostly ends the dump with an error; that has its own case above)
					if !expand[pathStr(q)] && !leaf[pathStr(q)] {
						expand[pathStr(q)] = true
						expandList = append(expandList, pathStr(q))
					}
				} else if !strs[pathStr(q)] {
					strs[pathStr(q)] = true
					strList = append(strList, pathStr(q))
				}
			}
		}
	}
	if r.Chance(1, 4) { // the order in which the paths are given does not matter
		r2 := r
		for i := len(expandList) - 1; i > 0; i-- {
			j := r2.Intn(i + 1)
			expandList[i], expandList[j] = expandList[j], expandList[i]
		}
		for i := len(strList) - 1; i > 0; i-- {
			j := r2.Intn(i + 1)
			strList[i], strList[j] = strList[j], strList[i]
		}
	}
	// render the flag values in one of the accepted spellings
	join := func(list []string) []string {
		if len(list) == 0 {
			return nil
		}
		switch r.Intn(3) {
		case 0:
			return []string{strings.Join(list, ",")}
		case 1:
			return list // one flag occurrence per path
		default:
			return []string{strings.Join(list, ",") + ",", ""}[:1+r.Intn(2)]
		}
	}
	ef, sf := join(expandList), join(strList)
	via := []string{"file", "redirect", "pipe"}[r.Intn(3)]
	desc := fmt.Sprintf("%s via=%s expand=%v strings=%v data=%s", kind, via, ef, sf, trunc(hexs(data), 400))
	c.Journal("C20 dump " + desc)
	stdout, ok, stderr := d.run(data, ef, sf, via)
	st := "err"
	if ok {
		st = "ok"
	}
	if strings.Contains(stderr, "panic:") || strings.Contains(stderr, "goroutine ") {
		st = "panic"
	}
	if len(data) == 0 && via == "redirect" {
		// an empty regular file on stdin is refused by the command line front end ("No data
		// provided"); that acceptance test is not part of the dump model
		if ok {
			c.Violate(fw.Violation{Stream: stream, Signature: "dump/empty-stdin-accepted", What: "empty regular file on stdin was not refused", Input: desc})
		}
		c.Count(stream, desc, "empty-stdin-refused", 0, false)
		return
	}
	c.Model(stream, fmt.Sprintf("T dump %s %s %s", flagArg(ef), flagArg(sf), hexs(data)), st+" "+hexs(stdout))
	var ref bytes.Buffer
	refOK := refDump(data, nil, 0, expand, strs, &ref)
	outcome := kind + "/" + st
	switch {
	case st == "panic":
		c.Violate(fw.Violation{Stream: stream, Signature: "dump/crash", What: "protodump crashed instead of reporting an error", Input: desc, Got: trunc(stderr, 400)})
	case refOK && (!ok || !bytes.Equal(stdout, ref.Bytes())):
		where, expWin, gotWin := firstDiffLines(ref.String(), string(stdout))
		c.Violate(fw.Violation{Stream: stream, Signature: "dump/output/" + via, What: "protodump output differs from the reference rendering of a well-formed message",
			Input: map[string]interface{}{"case": trunc(desc, 200), "via": via, "expand_flags": ef, "strings_flags": sf, "data": trunc(hexs(data), 6000),
				"first_difference": where, "exit_ok": ok, "stderr": trunc(stderr, 300)},
			Expected: expWin, Got: gotWin})
	case !refOK && ok && kind != "valid":
		// the reference rejects (e.g. group wire types / overflowing varints) what csproto's decoder may accept: only a crash would be a violation
	}
	c.Count(stream, desc, outcome, len(data), len(dm.paths) > 0 || len(dm.strs) > 0)
	if r.Intn(60) == 0 {
		c.Sample(map[string]interface{}{"stream": "dump", "case": trunc(desc, 200), "stdout": trunc(string(stdout), 200)})
	}
}

// firstDiffLines locates the first output line on which the two renderings differ and returns a window
// of both around it (the entries before it are the enclosing / preceding fields).
func firstDiffLines(want, got string) (where, wantWin, gotWin string) {
	wl, gl := strings.SplitAfter(want, "\n"), strings.SplitAfter(got, "\n")
	i := 0
	for i < len(wl) && i < len(gl) && wl[i] == gl[i] {
		i++
	}
	line := func(ls []string, k int) string {
		if k < len(ls) && ls[k] != "" {
			return trunc(strings.TrimRight(ls[k], "\n"), 120)
		}
		return "<end of output>"
	}
	where = fmt.Sprintf("output line %d: expected %q, got %q", i+1, line(wl, i), line(gl, i))
	win := func(ls []string) string {
		var sb strings.Builder
		// the headers of the enclosing fields (less indented "tag:" lines before line i), then the neighbourhood
		indent := func(s string) int { return len(s) - len(strings.TrimLeft(s, " ")) }
		cur := 1 << 30
		if i < len(ls) {
			cur = indent(ls[i])
		} else if len(ls) > 0 {
			cur = indent(ls[len(ls)-1])
		}
		var encl []string
		for k := i - 1; k >= 0 && k < len(ls); k-- {
			if strings.HasPrefix(strings.TrimLeft(ls[k], " "), "tag:") && indent(ls[k]) < cur {
				cur = indent(ls[k])
				encl = append([]string{trunc(strings.TrimRight(ls[k], "\n"), 100) + "\n"}, encl...)
			}
		}
		if len(encl) > 0 {
			sb.WriteString("(enclosing fields)\n" + strings.Join(encl, "") + "(around the difference)\n")
		}
		for k := i - 3; k < i+6; k++ {
			if k >= 0 && k < len(ls) && ls[k] != "" {
				sb.WriteString(trunc(strings.TrimRight(ls[k], "\n"), 160) + "\n")
			}
		}
		if i >= len(ls) || ls[i] == "" {
			sb.WriteString("<end of output>\n")
		}
		return sb.String()
	}
	return where, win(wl), win(gl)
}

func pathSyntaxCase(c *fw.Ctx, d *dumper) {
	// flag parsing: odd but legal spellings and illegal ones; data is one nested message at path 2
	r := c.Rng
	inner := protowire.AppendVarint(protowire.AppendTag(nil, 1, protowire.VarintType), 7)
	data := protowire.AppendBytes(protowire.AppendTag(nil, 2, protowire.BytesType), inner)
	vals := []string{"2", "2.", ".2", "2..", "+2", "02", "2,", ",2", "2,3.4", "2.1", "-0", "x", "2.x", "1e3", "536870911", "536870912", "-1", " 2", "2 ", "9223372036854775808", "", "0x2", "2_0"}
	v := vals[r.Intn(len(vals))]
	stdout, ok, stderr := d.run(data, []string{v}, nil, "file")
	st := "err"
	if ok {
		st = "ok"
	}
	impl := st + " " + hexs(stdout)
	if !ok && strings.Contains(stderr, "invalid value") {
		impl = "flagerr"
	}
	c.Model("paths", fmt.Sprintf("T dump %s - %s", flagArg([]string{v}), hexs(data)), impl)
	c.Count("paths", v, st, len(v), true)
}

func runC20(c *fw.Ctx) int {
	c.Facts = extractFacts(c)
	c.Prove("C20")
	scratch, err := os.MkdirTemp(filepath.Join(fw.VerifDir, ".cache"), "c20-")
	if err != nil {
		c.BrokenProof = append(c.BrokenProof, "cannot create scratch dir: "+err.Error())
		return c.Finish("", nil, nil)
	}
	defer os.RemoveAll(scratch)
	d := &dumper{bin: filepath.Join(scratch, "protodump"), scratch: scratch}
	build := exec.Command("go", "build", "-o", d.bin, "./cmd/protodump")
	build.Dir = fw.RepoDir
	if out, err := build.CombinedOutput(); err != nil {
		c.BrokenProof = append(c.BrokenProof, "protodump does not build: "+trunc(string(out), 300))
		return c.Finish("", nil, nil)
	}
	nHex, nDump := 3000, 350
	nSoup, nDeep, nText := 3000, 140, 240
	if c.Tier == "thorough" {
		nHex, nDump = 200000, 12000
		nSoup, nDeep, nText = 200000, 4000, 8000
	}
	// lines around and well beyond 64 KiB
	for _, n := range []int{21845, 21846, 32767, 32768, 40000} {
		hexLongCase(c, n, n%2 == 1 || n == 40000, false)
		hexLongCase(c, n, n%2 == 0, true)
	}
	c.FlushModel()
	for i := 0; i < nHex; i++ {
		hexCase(c)
		if i%20000 == 19999 {
			c.FlushModel()
		}
	}
	for i := 0; i < nSoup; i++ {
		hexSoupCase(c)
		if i%20000 == 19999 {
			c.FlushModel()
		}
	}
	// the smallest deep trees first, so that they are the first witnesses in a replay
	for depth := 0; depth <= 12; depth++ {
		ladderCase(c, d, depth, false)
		ladderCase(c, d, depth, true)
	}
	for i := 0; i < nDump; i++ {
		dumpCase(c, d)
		if i%7 == 0 {
			pathSyntaxCase(c, d)
		}
	}
	c.FlushModel()
	for i := 0; i < nDeep; i++ {
		deepDumpCase(c, d)
		if i%500 == 499 {
			c.FlushModel()
		}
	}
	for i := 0; i < nText; i++ {
		textDumpCase(c, d)
	}
	if c.Tier == "thorough" {
		c.LeanChecker("C20")
	}
	return c.Finish(
		"hex: blobs of 21845..40000 bytes written on one physical line (up to 120000 characters) between short lines, alone and followed by a non-hex line; random byte strings rendered with random Unicode whitespace, upper/lower-case digits, ';' comments (containing ';', hex digits, non-ASCII), LF/CRLF line breaks between bytes and spaces between the two digits of a byte; 30% corrupted (one or two foreign characters drawn from all of Unicode - biased to code points whose low 8 / low 16 / low 7 bits are a hex digit, whitespace, ';' or a line feed, to digits and letters of other scripts, fullwidth forms, characters with special case folding, format and control characters - at the start of a line, between bytes, between or in place of the digits of a byte; odd digit count on a line; line break inside a byte); hexsoup: texts that are not renderings of known bytes (random sequences of digit pairs, single digits, whitespace, line breaks, comments with arbitrary content incl. bytes that are not UTF-8, foreign characters, malformed UTF-8 outside comments); every text of both streams is judged by an independent character-level reading (accept with exactly these bytes / foreign character: must fail / half a byte on a line: must fail) and compared with the Lean model (malformed UTF-8 read the way Go reads a string, Model.goRunes); dump: protodump built from /repo and run as a sub-process (-file, redirected stdin, pipe) on random message trees of depth <= 3 (valid, truncated, bit-flipped, junk) with random subsets of the true nested/string paths plus decoy paths (absent paths, and paths easily confused with present ones: prefix, extension, neighbouring tag, zero at one level, reversed, same digits split differently), in the accepted flag spellings and in any order, stdout compared with the Lean model and with an independent protowire rendering; dumpdeep: ladders (a chain of 0..12 nested messages with three to five differently treated length-delimited siblings at the bottom or at every level, everything requested) and random trees 3..17 levels deep in which every message holds at least a printable and a binary leaf, scalars and one or two nested messages in random order, repeated tags, nearly all nested paths expanded; dumptext: well-formed messages all of whose bytes belong to a text-like alphabet (hex digits in either case, with whitespace, with ';' comments; base64; base64url with line feeds; JSON-ish; decimal; printable ASCII; whitespace+digits), flat and nested, valid and truncated; paths: 23 legal and illegal flag spellings; non-trivial = non-empty bytes (hex) / text that denotes bytes or must be rejected (hexsoup) / message containing a nested or string field (dump*)",
		append(trustedCommon, "encoding/hex, unicode.IsSpace, strings.Split, strconv.Atoi as mirrored in the model (compared by correspondence)", "protowire-based reference rendering written in the harness", "character-level reference reading of annotated hex written in the harness (utf8.DecodeRuneInString, unicode.IsSpace)"),
		[]string{"a line break between the two digits of one byte is rejected with an error (never mis-decoded); the completeness theorem quantifies over line breaks between bytes",
			"tag paths match exactly (as the repository's own tests pin); the doc comment's '0 = wildcard' is not implemented and not assumed",
			"whitespace = Unicode White_Space (Go's unicode.IsSpace); hex digits = the ASCII characters 0-9 A-F a-f; a byte that is not part of well-formed UTF-8 is a foreign character outside a comment and ignored inside one",
			"protodump's input is the binary message itself, whatever its bytes look like (the property: 'for every input ... the value that a reference parser finds')"})
}
