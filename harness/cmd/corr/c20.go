package main

import (
	"bytes"
	"encoding/hex"
	"fmt"
	"os"
	"os/exec"
	"path/filepath"
	"strconv"
	"strings"

	"github.com/CrowdStrike/csproto/prototest"
	"google.golang.org/protobuf/encoding/protowire"

	"csverif/internal/fw"
	"csverif/internal/prng"
)

func init() { props["C20"] = runC20 }

var spaceRunes = []rune{' ', ' ', ' ', '\t', '\t', '\r', '\v', '\f', 0x85, 0xA0, 0x1680, 0x2003, 0x2028, 0x3000}

// renderAnnotated renders b with random spacing, comments and line breaks. Line breaks are only
// placed between bytes; spaces/tabs/comments anywhere (a comment ends the line).
func renderAnnotated(r *prng.Rng, b []byte) string {
	var sb strings.Builder
	ws := func(max int) {
		for i := r.Intn(max + 1); i > 0; i-- {
			sb.WriteRune(spaceRunes[r.Intn(len(spaceRunes))])
		}
	}
	comment := func() {
		sb.WriteByte(';')
		n := r.Intn(12)
		for i := 0; i < n; i++ {
			c := rune(32 + r.Intn(95))
			if r.Chance(1, 8) {
				c = []rune{';', 'é', 'ß', '0', 'f', 'Z', 0x3000}[r.Intn(7)]
			}
			sb.WriteRune(c)
		}
		sb.WriteByte('\n')
	}
	digits := "0123456789abcdef"
	if r.Bool() {
		digits = "0123456789ABCDEF"
	}
	for _, x := range b {
		ws(2)
		if r.Chance(1, 10) {
			comment()
			ws(2)
		}
		d := digits
		if r.Chance(1, 6) {
			d = "0123456789abcdef"
		}
		sb.WriteByte(d[x>>4])
		if r.Chance(1, 6) {
			ws(2) // spaces between the two digits of a byte are legal
		}
		sb.WriteByte(d[x&15])
		switch r.Intn(8) {
		case 0:
			sb.WriteByte('\n')
		case 1:
			ws(1)
			comment()
		case 2:
			sb.WriteString("\r\n")
		}
	}
	ws(2)
	if r.Chance(1, 4) {
		comment()
	}
	if r.Chance(1, 4) {
		sb.WriteString("\n\n")
	}
	return sb.String()
}

func hexCase(c *fw.Ctx) {
	r := c.Rng
	b := r.Bytes(r.Intn(40))
	text := renderAnnotated(r, b)
	kind := "valid"
	switch r.Intn(10) {
	case 0: // corrupt: a non-hex, non-space character outside any comment
		runes := []rune(text)
		pos := r.Intn(len(runes) + 1)
		bad := []rune{'g', 'x', 'Z', '-', ':', '#', '/', 'é', '.', ','}[r.Intn(10)]
		// make sure it is outside a comment: put it at the start of a line
		for pos > 0 && runes[pos-1] != '\n' {
			pos--
		}
		text = string(runes[:pos]) + string(bad) + string(runes[pos:])
		kind = "corrupt-char"
	case 1: // odd number of digits on one line
		text = text + "\n a"
		kind = "corrupt-odd"
	case 2: // line break between the two digits of a byte
		text = text + "\n0\n8"
		kind = "split-byte"
	}
	hexEval(c, b, text, kind)
}

// hexLongCase: one physical line longer than 64 KiB (a blob written on one line), between short lines,
// optionally followed by a line that is not hex.
func hexLongCase(c *fw.Ctx, n int, spaced, garbage bool) {
	b := append([]byte{0x08, 0x01}, c.Rng.Bytes(n)...)
	b = append(b, 0x10, 0x02)
	var sb strings.Builder
	sb.WriteString("08 01 ; header\n")
	for _, x := range b[2 : 2+n] {
		fmt.Fprintf(&sb, "%02x", x)
		if spaced {
			sb.WriteByte(' ')
		}
	}
	sb.WriteString("\n10 02 ; trailer\n")
	kind := "valid"
	if garbage {
		sb.WriteString("zz not hex\n")
		kind = "corrupt-char"
	}
	hexEval(c, b, sb.String(), kind)
}

func hexEval(c *fw.Ctx, b []byte, text, kind string) {
	r := c.Rng
	c.Journal("C20 hex " + trunc(hex.EncodeToString([]byte(text)), 2000))
	got, err := func() (b []byte, err error) {
		defer func() {
			if x := recover(); x != nil {
				err = fmt.Errorf("PANIC %v", x)
			}
		}()
		return prototest.ParseAnnotatedHex(text)
	}()
	impl := "err"
	if err == nil {
		impl = "ok " + hexs(got)
	}
	c.Model("hex", "T hex "+hexs([]byte(text)), impl)
	outcome := kind + "/" + strings.SplitN(impl, " ", 2)[0]
	switch {
	case err != nil && strings.HasPrefix(err.Error(), "PANIC"):
		c.Violate(fw.Violation{Stream: "hex", Signature: "hex/panic", What: "ParseAnnotatedHex panicked", Input: text, Got: err.Error()})
	case kind == "valid" && (err != nil || !bytes.Equal(got, b)):
		c.Violate(fw.Violation{Stream: "hex", Signature: "hex/valid-rendering", What: "ParseAnnotatedHex(render(b)) != b", Input: map[string]string{"text": text, "bytes": hexs(b)}, Expected: "ok " + hexs(b), Got: impl})
	case kind != "valid" && err == nil:
		c.Violate(fw.Violation{Stream: "hex", Signature: "hex/accepts-" + kind, What: "text containing something other than hex digits / whitespace / comments was accepted", Input: text, Got: impl})
	}
	c.Count("hex", text, outcome, len(text), len(b) > 0)
	if r.Intn(200) == 0 {
		c.Sample(map[string]interface{}{"stream": "hex", "text": text, "bytes": hexs(b)})
	}
}

// ---- protodump ----

type dumpMsg struct {
	data  []byte
	paths [][]int // paths of length-delimited fields that hold nested messages
	strs  [][]int // paths of fields that hold printable strings
	all   [][]int // paths of all length-delimited fields
}

func genDumpMessage(r *prng.Rng, depth int, parent []int, dm *dumpMsg) []byte {
	var msg []byte
	n := 1 + r.Intn(4)
	for i := 0; i < n; i++ {
		tag := 1 + r.Intn(6)
		if r.Chance(1, 8) {
			tag = genTag(r)
		}
		num := protowire.Number(tag)
		path := append(append([]int{}, parent...), tag)
		switch r.Intn(6) {
		case 0:
			msg = protowire.AppendTag(msg, num, protowire.VarintType)
			msg = protowire.AppendVarint(msg, r.U64Interesting())
		case 1:
			msg = protowire.AppendTag(msg, num, protowire.Fixed32Type)
			msg = protowire.AppendFixed32(msg, uint32(r.U64Interesting()))
		case 2:
			msg = protowire.AppendTag(msg, num, protowire.Fixed64Type)
			msg = protowire.AppendFixed64(msg, r.U64Interesting())
		case 3:
			s := asciiBytes(r, r.Intn(12))
			msg = protowire.AppendTag(msg, num, protowire.BytesType)
			msg = protowire.AppendBytes(msg, s)
			dm.strs = append(dm.strs, path)
			dm.all = append(dm.all, path)
		case 4:
			msg = protowire.AppendTag(msg, num, protowire.BytesType)
			msg = protowire.AppendBytes(msg, r.Bytes(r.Intn(10)))
			dm.all = append(dm.all, path)
		default:
			if depth < 3 {
				inner := genDumpMessage(r, depth+1, path, dm)
				msg = protowire.AppendTag(msg, num, protowire.BytesType)
				msg = protowire.AppendBytes(msg, inner)
				dm.paths = append(dm.paths, path)
				dm.all = append(dm.all, path)
			}
		}
	}
	return msg
}

func pathStr(p []int) string {
	ss := make([]string, len(p))
	for i, t := range p {
		ss[i] = strconv.Itoa(t)
	}
	return strings.Join(ss, ".")
}

// refDump is the reference rendering: a protowire walk producing what protodump documents.
func refDump(data []byte, parent []int, indent int, expand, strs map[string]bool, out *bytes.Buffer) bool {
	prefix := strings.Repeat(" ", 2*indent)
	wtNames := map[protowire.Type]string{0: "varint", 1: "fixed64", 2: "length-delimited", 5: "fixed32"}
	for len(data) > 0 {
		num, typ, n := protowire.ConsumeTag(data)
		if n < 0 {
			return false
		}
		data = data[n:]
		name, ok := wtNames[typ]
		if !ok {
			name = "unknown"
		}
		fmt.Fprintf(out, "%stag: %d, wire type: %s\n", prefix, num, name)
		path := append(append([]int{}, parent...), int(num))
		switch typ {
		case protowire.VarintType:
			v, n := protowire.ConsumeVarint(data)
			if n < 0 {
				return false
			}
			data = data[n:]
			fmt.Fprintf(out, "%s  varint: %d\n", prefix, int64(v))
		case protowire.Fixed32Type:
			v, n := protowire.ConsumeFixed32(data)
			if n < 0 {
				return false
			}
			data = data[n:]
			fmt.Fprintf(out, "%s  fixed32: %d\n", prefix, v)
		case protowire.Fixed64Type:
			v, n := protowire.ConsumeFixed64(data)
			if n < 0 {
				return false
			}
			data = data[n:]
			fmt.Fprintf(out, "%s  fixed64: %d\n", prefix, v)
		case protowire.BytesType:
			v, n := protowire.ConsumeBytes(data)
			if n < 0 {
				return false
			}
			data = data[n:]
			fmt.Fprintf(out, "%s  length: %d\n", prefix, len(v))
			if strs[pathStr(path)] {
				fmt.Fprintf(out, "%s  string: %s\n", prefix, v)
			} else {
				hs := make([]string, len(v))
				for i, b := range v {
					hs[i] = fmt.Sprintf("0x%02X", b)
				}
				fmt.Fprintf(out, "%s  [%s]\n", prefix, strings.Join(hs, ","))
				if expand[pathStr(path)] {
					if !refDump(v, path, indent+1, expand, strs, out) {
						return false
					}
				}
			}
		default:
			return false
		}
	}
	return true
}

type dumper struct {
	bin     string
	scratch string
}

func (d *dumper) run(data []byte, expandFlags, stringFlags []string, via string) (stdout []byte, ok bool, stderr string) {
	var args []string
	for _, e := range expandFlags {
		args = append(args, "-expand", e)
	}
	for _, s := range stringFlags {
		args = append(args, "-strings", s)
	}
	file := filepath.Join(d.scratch, "msg.bin")
	os.WriteFile(file, data, 0o644)
	var cmd *exec.Cmd
	switch via {
	case "file":
		cmd = exec.Command(d.bin, append(args, "-file", file)...)
	case "redirect":
		cmd = exec.Command(d.bin, args...)
		f, _ := os.Open(file)
		defer f.Close()
		cmd.Stdin = f
	default: // pipe
		cmd = exec.Command(d.bin, args...)
		cmd.Stdin = bytes.NewReader(data) // exec connects a pipe for non-*os.File readers
	}
	var so, se bytes.Buffer
	cmd.Stdout, cmd.Stderr = &so, &se
	err := cmd.Run()
	return so.Bytes(), err == nil, se.String()
}

func flagArg(vals []string) string {
	if len(vals) == 0 {
		return "-"
	}
	hs := make([]string, len(vals))
	for i, v := range vals {
		hs[i] = hexs([]byte(v))
		if v == "" {
			hs[i] = "-"
		}
	}
	return strings.Join(hs, "+")
}

func dumpCase(c *fw.Ctx, d *dumper) {
	r := c.Rng
	dm := &dumpMsg{}
	data := genDumpMessage(r, 0, nil, dm)
	kind := "valid"
	switch r.Intn(8) {
	case 0:
		if len(data) > 0 {
			data = data[:r.Intn(len(data))]
			kind = "truncated"
		}
	case 1:
		if len(data) > 0 {
			data[r.Intn(len(data))] ^= byte(1 << uint(r.Intn(8)))
			kind = "bitflip"
		}
	case 2:
		data = r.Bytes(r.Intn(16))
		kind = "junk"
	}
	// choose path sets: subsets of the true nested/string paths, plus decoys
	expand, strs := map[string]bool{}, map[string]bool{}
	var expandList, strList []string
	for _, p := range dm.paths {
		if r.Chance(2, 3) {
			expand[pathStr(p)] = true
			expandList = append(expandList, pathStr(p))
		}
	}
	for _, p := range dm.strs {
		if r.Chance(1, 2) {
			strs[pathStr(p)] = true
			strList = append(strList, pathStr(p))
		}
	}
	if r.Chance(1, 5) && len(dm.all) > 0 { // expand something that is not a message
		p := dm.all[r.Intn(len(dm.all))]
		if !strs[pathStr(p)] {
			expand[pathStr(p)] = true
			expandList = append(expandList, pathStr(p))
		}
	}
	if r.Chance(1, 4) { // decoys: paths that do not occur, a prefix, the wildcard-looking 0
		for _, dcy := range []string{"9.9", "0", "1", "2.0"} {
			if r.Bool() && !expand[dcy] && !strs[dcy] {
				expandList = append(expandList, dcy)
				expand[dcy] = true
			}
		}
	}
	// render the flag values in one of the accepted spellings
	join := func(list []string) []string {
		if len(list) == 0 {
			return nil
		}
		switch r.Intn(3) {
		case 0:
			return []string{strings.Join(list, ",")}
		case 1:
			return list // one flag occurrence per path
		default:
			return []string{strings.Join(list, ",") + ",", ""}[:1+r.Intn(2)]
		}
	}
	ef, sf := join(expandList), join(strList)
	via := []string{"file", "redirect", "pipe"}[r.Intn(3)]
	desc := fmt.Sprintf("%s via=%s expand=%v strings=%v data=%s", kind, via, ef, sf, trunc(hexs(data), 400))
	c.Journal("C20 dump " + desc)
	stdout, ok, stderr := d.run(data, ef, sf, via)
	st := "err"
	if ok {
		st = "ok"
	}
	if strings.Contains(stderr, "panic:") || strings.Contains(stderr, "goroutine ") {
		st = "panic"
	}
	if len(data) == 0 && via == "redirect" {
		// an empty regular file on stdin is refused by the command line front end ("No data
		// provided"); that acceptance test is not part of the dump model
		if ok {
			c.Violate(fw.Violation{Stream: "dump", Signature: "dump/empty-stdin-accepted", What: "empty regular file on stdin was not refused", Input: desc})
		}
		c.Count("dump", desc, "empty-stdin-refused", 0, false)
		return
	}
	c.Model("dump", fmt.Sprintf("T dump %s %s %s", flagArg(ef), flagArg(sf), hexs(data)), st+" "+hexs(stdout))
	var ref bytes.Buffer
	refOK := refDump(data, nil, 0, expand, strs, &ref)
	outcome := kind + "/" + st
	switch {
	case st == "panic":
		c.Violate(fw.Violation{Stream: "dump", Signature: "dump/crash", What: "protodump crashed instead of reporting an error", Input: desc, Got: trunc(stderr, 400)})
	case refOK && (!ok || !bytes.Equal(stdout, ref.Bytes())):
		c.Violate(fw.Violation{Stream: "dump", Signature: "dump/output/" + via, What: "protodump output differs from the reference rendering of a well-formed message", Input: desc,
			Expected: trunc(ref.String(), 600), Got: trunc(string(stdout)+" | stderr: "+stderr, 600)})
	case !refOK && ok && kind != "valid":
		// the reference rejects (e.g. group wire types / overflowing varints) what csproto's decoder may accept: only a crash would be a violation
	}
	c.Count("dump", desc, outcome, len(data), len(dm.paths) > 0 || len(dm.strs) > 0)
	if r.Intn(60) == 0 {
		c.Sample(map[string]interface{}{"stream": "dump", "case": trunc(desc, 200), "stdout": trunc(string(stdout), 200)})
	}
}

func pathSyntaxCase(c *fw.Ctx, d *dumper) {
	// flag parsing: odd but legal spellings and illegal ones; data is one nested message at path 2
	r := c.Rng
	inner := protowire.AppendVarint(protowire.AppendTag(nil, 1, protowire.VarintType), 7)
	data := protowire.AppendBytes(protowire.AppendTag(nil, 2, protowire.BytesType), inner)
	vals := []string{"2", "2.", ".2", "2..", "+2", "02", "2,", ",2", "2,3.4", "2.1", "-0", "x", "2.x", "1e3", "536870911", "536870912", "-1", " 2", "2 ", "9223372036854775808", "", "0x2", "2_0"}
	v := vals[r.Intn(len(vals))]
	stdout, ok, stderr := d.run(data, []string{v}, nil, "file")
	st := "err"
	if ok {
		st = "ok"
	}
	impl := st + " " + hexs(stdout)
	if !ok && strings.Contains(stderr, "invalid value") {
		impl = "flagerr"
	}
	c.Model("paths", fmt.Sprintf("T dump %s - %s", flagArg([]string{v}), hexs(data)), impl)
	c.Count("paths", v, st, len(v), true)
}

func runC20(c *fw.Ctx) int {
	c.Facts = extractFacts(c)
	c.Prove("C20")
	scratch, err := os.MkdirTemp(filepath.Join(fw.VerifDir, ".cache"), "c20-")
	if err != nil {
		c.BrokenProof = append(c.BrokenProof, "cannot create scratch dir: "+err.Error())
		return c.Finish("", nil, nil)
	}
	defer os.RemoveAll(scratch)
	d := &dumper{bin: filepath.Join(scratch, "protodump"), scratch: scratch}
	build := exec.Command("go", "build", "-o", d.bin, "./cmd/protodump")
	build.Dir = fw.RepoDir
	if out, err := build.CombinedOutput(); err != nil {
		c.BrokenProof = append(c.BrokenProof, "protodump does not build: "+trunc(string(out), 300))
		return c.Finish("", nil, nil)
	}
	nHex, nDump := 3000, 350
	if c.Tier == "thorough" {
		nHex, nDump = 200000, 12000
	}
	// lines around and well beyond 64 KiB
	for _, n := range []int{21845, 21846, 32767, 32768, 40000} {
		hexLongCase(c, n, n%2 == 1 || n == 40000, false)
		hexLongCase(c, n, n%2 == 0, true)
	}
	c.FlushModel()
	for i := 0; i < nHex; i++ {
		hexCase(c)
		if i%20000 == 19999 {
			c.FlushModel()
		}
	}
	for i := 0; i < nDump; i++ {
		dumpCase(c, d)
		if i%7 == 0 {
			pathSyntaxCase(c, d)
		}
	}
	if c.Tier == "thorough" {
		c.LeanChecker("C20")
	}
	return c.Finish(
		"hex: blobs of 21845..40000 bytes written on one physical line (up to 120000 characters) between short lines, alone and followed by a non-hex line; random byte strings rendered with random Unicode whitespace, upper/lower-case digits, ';' comments (containing ';', hex digits, non-ASCII), LF/CRLF line breaks between bytes and spaces between the two digits of a byte; 30% corrupted (foreign character outside a comment, odd digit count on a line, line break inside a byte); dump: protodump built from /repo and run as a sub-process (-file, redirected stdin, pipe) on random message trees of depth <= 3 (valid, truncated, bit-flipped, junk) with random subsets of the true nested/string paths plus decoy paths, in the accepted flag spellings, stdout compared with the Lean model and with an independent protowire rendering; paths: 23 legal and illegal flag spellings; non-trivial = non-empty bytes (hex) / message containing a nested or string field (dump)",
		append(trustedCommon, "encoding/hex, unicode.IsSpace, strings.Split, strconv.Atoi as mirrored in the model (compared by correspondence)", "protowire-based reference rendering written in the harness"),
		[]string{"a line break between the two digits of one byte is rejected with an error (never mis-decoded); the completeness theorem quantifies over line breaks between bytes",
			"tag paths match exactly (as the repository's own tests pin); the doc comment's '0 = wildcard' is not implemented and not assumed"})
}
