package main

import (
	"math"

	"github.com/CrowdStrike/csproto"

	"csverif/internal/prng"
)

// A scalar / packed kind of the hand-written codec: how to generate a value, how the
// implementation writes/reads/sizes it, and the corresponding model operations.
type wval struct {
	u  uint64 // raw bits of a scalar (sign-extended for signed kinds)
	b  []byte
	us []uint64 // packed elements (raw bits, sign-extended for signed kinds)
}

type kind struct {
	name   string
	wt     int
	packed bool
	gen    func(r *prng.Rng) wval
	enc    func(tag int, v wval) encOp
	decOp  string
	// item is the canonical item text the decoder must return for v
	item func(v wval) string
	// payload size predicted with the exported size helpers only (without the key)
	size func(v wval) int
}

func genU(bits uint, signed bool) func(r *prng.Rng) uint64 {
	return func(r *prng.Rng) uint64 {
		v := r.U64Interesting()
		if bits == 32 {
			if signed {
				return uint64(int64(int32(uint32(v))))
			}
			return uint64(uint32(v))
		}
		return v
	}
}

func genBytes(r *prng.Rng) []byte {
	switch r.Intn(8) {
	case 0:
		return []byte{}
	case 1:
		return r.Bytes(127 + r.Intn(3))
	case 2:
		return r.Bytes(300)
	case 3:
		return r.Bytes(16383 + r.Intn(3))
	default:
		return r.Bytes(r.Intn(20))
	}
}

func listLen(r *prng.Rng) int {
	switch r.Intn(8) {
	case 0:
		return 0
	case 1:
		return 1
	case 2:
		return 2
	case 3:
		return 127 + r.Intn(3)
	case 4:
		return 300
	case 5:
		// payloads that cross the one-byte length limit with fewer than 128 elements
		return []int{13, 15, 16, 17, 25, 26, 31, 32, 33, 43, 63, 64, 65}[r.Intn(13)]
	default:
		return r.Intn(12)
	}
}

func mapS[T, U any](xs []T, f func(T) U) []U {
	out := make([]U, len(xs))
	for i, x := range xs {
		out[i] = f(x)
	}
	return out
}

func scalarKinds() []kind {
	varintKind := func(name string, bits uint, signed bool, decOp string,
		call func(e *csproto.Encoder, tag int, u uint64)) kind {
		return kind{name: name, wt: 0,
			gen: func(r *prng.Rng) wval { return wval{u: genU(bits, signed)(r)} },
			enc: func(tag int, v wval) encOp {
				return encOp{name: "varint", tag: tag, u: v.u, call: func(e *csproto.Encoder) error { call(e, tag, v.u); return nil }}
			},
			decOp: decOp,
			item: func(v wval) string {
				if signed {
					return "i" + i64s(int64(v.u))
				}
				return "n" + u64s(v.u)
			},
			size: func(v wval) int { return csproto.SizeOfVarint(v.u) },
		}
	}
	ks := []kind{
		{name: "bool", wt: 0,
			gen: func(r *prng.Rng) wval { return wval{u: uint64(r.Intn(2))} },
			enc: func(tag int, v wval) encOp {
				return encOp{name: "bool", tag: tag, u: v.u, call: func(e *csproto.Encoder) error { e.EncodeBool(tag, v.u == 1); return nil }}
			},
			decOp: "bool", item: func(v wval) string { return "b" + u64s(v.u) }, size: func(v wval) int { return 1 }},
		varintKind("int32", 32, true, "int32", func(e *csproto.Encoder, tag int, u uint64) { e.EncodeInt32(tag, int32(u)) }),
		varintKind("int64", 64, true, "int64", func(e *csproto.Encoder, tag int, u uint64) { e.EncodeInt64(tag, int64(u)) }),
		varintKind("uint32", 32, false, "uint32", func(e *csproto.Encoder, tag int, u uint64) { e.EncodeUInt32(tag, uint32(u)) }),
		varintKind("uint64", 64, false, "uint64", func(e *csproto.Encoder, tag int, u uint64) { e.EncodeUInt64(tag, u) }),
		{name: "sint32", wt: 0,
			gen: func(r *prng.Rng) wval { return wval{u: genU(32, true)(r)} },
			enc: func(tag int, v wval) encOp {
				return encOp{name: "zz32", tag: tag, i: int64(v.u), call: func(e *csproto.Encoder) error { e.EncodeSInt32(tag, int32(v.u)); return nil }}
			},
			decOp: "sint32", item: func(v wval) string { return "i" + i64s(int64(v.u)) },
			size: func(v wval) int { return csproto.SizeOfZigZag(v.u) }},
		{name: "sint64", wt: 0,
			gen: func(r *prng.Rng) wval { return wval{u: genU(64, true)(r)} },
			enc: func(tag int, v wval) encOp {
				return encOp{name: "zz64", tag: tag, i: int64(v.u), call: func(e *csproto.Encoder) error { e.EncodeSInt64(tag, int64(v.u)); return nil }}
			},
			decOp: "sint64", item: func(v wval) string { return "i" + i64s(int64(v.u)) },
			size: func(v wval) int { return csproto.SizeOfZigZag(v.u) }},
	}
	fixedKind := func(name string, bits uint, decOp string, call func(e *csproto.Encoder, tag int, u uint64), signedItem bool) kind {
		wt, op, sz := 5, "f32", 4
		if bits == 64 {
			wt, op, sz = 1, "f64", 8
		}
		return kind{name: name, wt: wt,
			gen: func(r *prng.Rng) wval {
				if bits == 32 {
					return wval{u: uint64(uint32(r.U64Interesting()))}
				}
				return wval{u: r.U64Interesting()}
			},
			enc: func(tag int, v wval) encOp {
				return encOp{name: op, tag: tag, u: v.u, call: func(e *csproto.Encoder) error { call(e, tag, v.u); return nil }}
			},
			decOp: decOp,
			item:  func(v wval) string { return "n" + u64s(v.u) },
			size:  func(v wval) int { return sz },
		}
	}
	ks = append(ks,
		fixedKind("fixed32", 32, "fixed32", func(e *csproto.Encoder, tag int, u uint64) { e.EncodeFixed32(tag, uint32(u)) }, false),
		fixedKind("fixed64", 64, "fixed64", func(e *csproto.Encoder, tag int, u uint64) { e.EncodeFixed64(tag, u) }, false),
		// sfixed32/64 are written by generated code through the fixed writers and a cast
		fixedKind("sfixed32", 32, "fixed32", func(e *csproto.Encoder, tag int, u uint64) { e.EncodeFixed32(tag, uint32(int32(uint32(u)))) }, true),
		fixedKind("sfixed64", 64, "fixed64", func(e *csproto.Encoder, tag int, u uint64) { e.EncodeFixed64(tag, uint64(int64(u))) }, true),
		fixedKind("float", 32, "float32", func(e *csproto.Encoder, tag int, u uint64) { e.EncodeFloat32(tag, math.Float32frombits(uint32(u))) }, false),
		fixedKind("double", 64, "float64", func(e *csproto.Encoder, tag int, u uint64) { e.EncodeFloat64(tag, math.Float64frombits(u)) }, false),
	)
	lenKind := func(name, decOp string, call func(e *csproto.Encoder, tag int, b []byte)) kind {
		return kind{name: name, wt: 2,
			gen: func(r *prng.Rng) wval { return wval{b: genBytes(r)} },
			enc: func(tag int, v wval) encOp {
				return encOp{name: "bytes", tag: tag, b: v.b, call: func(e *csproto.Encoder) error { call(e, tag, v.b); return nil }}
			},
			decOp: decOp,
			item:  func(v wval) string { return "x" + hexs(v.b) },
			size:  func(v wval) int { return csproto.SizeOfVarint(uint64(len(v.b))) + len(v.b) },
		}
	}
	ks = append(ks,
		lenKind("string", "string", func(e *csproto.Encoder, tag int, b []byte) { e.EncodeString(tag, string(b)) }),
		lenKind("bytes", "bytes", func(e *csproto.Encoder, tag int, b []byte) { e.EncodeBytes(tag, b) }),
	)
	return ks
}

func packedKinds() []kind {
	genList := func(elem func(r *prng.Rng) uint64) func(r *prng.Rng) wval {
		return func(r *prng.Rng) wval {
			n := listLen(r)
			us := make([]uint64, n)
			for i := range us {
				us[i] = elem(r)
			}
			// one list in four is uniform: every element equal to the largest one drawn, or all zero — so
			// that a few dozen wide elements cross the length-prefix boundaries
			switch r.Intn(12) {
			case 0, 1:
				var w uint64
				for _, u := range us {
					if u > w {
						w = u
					}
				}
				for i := range us {
					us[i] = w
				}
			case 2:
				for i := range us {
					us[i] = 0
				}
			}
			return wval{us: us}
		}
	}
	sumSize := func(f func(u uint64) int) func(v wval) int {
		return func(v wval) int {
			if len(v.us) == 0 {
				return -1 // nothing is written at all (not even the key)
			}
			n := 0
			for _, u := range v.us {
				n += f(u)
			}
			return csproto.SizeOfVarint(uint64(n)) + n
		}
	}
	unsignedItem := func(v wval) string { return "N" + joinU(v.us, u64s) }
	signedItem := func(v wval) string { return "I" + joinU(v.us, func(u uint64) string { return i64s(int64(u)) }) }
	ks := []kind{
		{name: "packed-bool", gen: genList(func(r *prng.Rng) uint64 { return uint64(r.Intn(2)) }),
			enc: func(tag int, v wval) encOp {
				bs := mapS(v.us, func(u uint64) bool { return u == 1 })
				return encOp{name: "pbool", tag: tag, bs: bs, call: func(e *csproto.Encoder) error { e.EncodePackedBool(tag, bs); return nil }}
			},
			decOp: "pbool", item: func(v wval) string { return "B" + joinU(v.us, u64s) },
			size: sumSize(func(u uint64) int { return 1 })},
		{name: "packed-int32", gen: genList(genU(32, true)),
			enc: func(tag int, v wval) encOp {
				xs := mapS(v.us, func(u uint64) int32 { return int32(u) })
				return encOp{name: "pvarint", tag: tag, us: v.us, call: func(e *csproto.Encoder) error { e.EncodePackedInt32(tag, xs); return nil }}
			},
			decOp: "pint32", item: signedItem, size: sumSize(csproto.SizeOfVarint)},
		{name: "packed-int64", gen: genList(genU(64, true)),
			enc: func(tag int, v wval) encOp {
				xs := mapS(v.us, func(u uint64) int64 { return int64(u) })
				return encOp{name: "pvarint", tag: tag, us: v.us, call: func(e *csproto.Encoder) error { e.EncodePackedInt64(tag, xs); return nil }}
			},
			decOp: "pint64", item: signedItem, size: sumSize(csproto.SizeOfVarint)},
		{name: "packed-uint32", gen: genList(genU(32, false)),
			enc: func(tag int, v wval) encOp {
				xs := mapS(v.us, func(u uint64) uint32 { return uint32(u) })
				return encOp{name: "pvarint", tag: tag, us: v.us, call: func(e *csproto.Encoder) error { e.EncodePackedUInt32(tag, xs); return nil }}
			},
			decOp: "puint32", item: unsignedItem, size: sumSize(csproto.SizeOfVarint)},
		{name: "packed-uint64", gen: genList(genU(64, false)),
			enc: func(tag int, v wval) encOp {
				return encOp{name: "pvarint", tag: tag, us: v.us, call: func(e *csproto.Encoder) error { e.EncodePackedUInt64(tag, v.us); return nil }}
			},
			decOp: "puint64", item: unsignedItem, size: sumSize(csproto.SizeOfVarint)},
		{name: "packed-sint32", gen: genList(genU(32, true)),
			enc: func(tag int, v wval) encOp {
				xs := mapS(v.us, func(u uint64) int32 { return int32(u) })
				return encOp{name: "pzz32", tag: tag, is: mapS(v.us, func(u uint64) int64 { return int64(u) }), call: func(e *csproto.Encoder) error { e.EncodePackedSInt32(tag, xs); return nil }}
			},
			decOp: "psint32", item: signedItem, size: sumSize(csproto.SizeOfZigZag)},
		{name: "packed-sint64", gen: genList(genU(64, true)),
			enc: func(tag int, v wval) encOp {
				xs := mapS(v.us, func(u uint64) int64 { return int64(u) })
				return encOp{name: "pzz64", tag: tag, is: xs, call: func(e *csproto.Encoder) error { e.EncodePackedSInt64(tag, xs); return nil }}
			},
			decOp: "psint64", item: signedItem, size: sumSize(csproto.SizeOfZigZag)},
		{name: "packed-fixed32", gen: genList(genU(32, false)),
			enc: func(tag int, v wval) encOp {
				xs := mapS(v.us, func(u uint64) uint32 { return uint32(u) })
				return encOp{name: "pf32", tag: tag, us: v.us, call: func(e *csproto.Encoder) error { e.EncodePackedFixed32(tag, xs); return nil }}
			},
			decOp: "pfixed32", item: unsignedItem, size: sumSize(func(uint64) int { return 4 })},
		{name: "packed-fixed64", gen: genList(genU(64, false)),
			enc: func(tag int, v wval) encOp {
				return encOp{name: "pf64", tag: tag, us: v.us, call: func(e *csproto.Encoder) error { e.EncodePackedFixed64(tag, v.us); return nil }}
			},
			decOp: "pfixed64", item: unsignedItem, size: sumSize(func(uint64) int { return 8 })},
		{name: "packed-sfixed32", gen: genList(genU(32, false)),
			enc: func(tag int, v wval) encOp {
				xs := mapS(v.us, func(u uint64) int32 { return int32(uint32(u)) })
				return encOp{name: "pf32", tag: tag, us: v.us, call: func(e *csproto.Encoder) error { e.EncodePackedSFixed32(tag, xs); return nil }}
			},
			decOp: "pfixed32", item: unsignedItem, size: sumSize(func(uint64) int { return 4 })},
		{name: "packed-sfixed64", gen: genList(genU(64, false)),
			enc: func(tag int, v wval) encOp {
				xs := mapS(v.us, func(u uint64) int64 { return int64(u) })
				return encOp{name: "pf64", tag: tag, us: v.us, call: func(e *csproto.Encoder) error { e.EncodePackedSFixed64(tag, xs); return nil }}
			},
			decOp: "pfixed64", item: unsignedItem, size: sumSize(func(uint64) int { return 8 })},
		{name: "packed-float", gen: genList(genU(32, false)),
			enc: func(tag int, v wval) encOp {
				xs := mapS(v.us, func(u uint64) float32 { return math.Float32frombits(uint32(u)) })
				return encOp{name: "pf32", tag: tag, us: v.us, call: func(e *csproto.Encoder) error { e.EncodePackedFloat32(tag, xs); return nil }}
			},
			decOp: "pfloat32", item: unsignedItem, size: sumSize(func(uint64) int { return 4 })},
		{name: "packed-double", gen: genList(genU(64, false)),
			enc: func(tag int, v wval) encOp {
				xs := mapS(v.us, func(u uint64) float64 { return math.Float64frombits(u) })
				return encOp{name: "pf64", tag: tag, us: v.us, call: func(e *csproto.Encoder) error { e.EncodePackedFloat64(tag, xs); return nil }}
			},
			decOp: "pfloat64", item: unsignedItem, size: sumSize(func(uint64) int { return 8 })},
	}
	for i := range ks {
		ks[i].wt = 2
		ks[i].packed = true
	}
	return ks
}

var interestingTags = []int{1, 2, 15, 16, 2047, 2048, 262143, 262144, 1<<21 - 1, 1 << 21, 1<<26 - 1, 1 << 26, 1 << 28, 1<<29 - 2, 1<<29 - 1}

func genTag(r *prng.Rng) int {
	if r.Chance(2, 3) {
		return interestingTags[r.Intn(len(interestingTags))]
	}
	return 1 + r.Intn(1<<29-1)
}

// bigPackedLists yields, for a packed kind, lists of n equal elements of the kind's widest and narrowest encodings
// with n chosen so that the payload lands just below, on and just above 16384 bytes — where the length
// prefix grows from two bytes to three.
func bigPackedLists(k kind, r *prng.Rng, yield func(v wval)) {
	var wide uint64
	for d := 0; d < 16; d++ {
		for _, u := range k.gen(r).us {
			if u > wide {
				wide = u
			}
		}
	}
	for _, elem := range []uint64{wide, 1} {
		one := k.size(wval{us: []uint64{elem}}) - 1 // payload of a one-element list (its length prefix is one byte)
		if one <= 0 {
			continue
		}
		for _, total := range []int{16383, 16384, 16385} {
			n := (total + one - 1) / one
			us := make([]uint64, n)
			for i := range us {
				us[i] = elem
			}
			yield(wval{us: us})
		}
	}
}
