package main

// C20, second part: the independent character-level reading of annotated hex (used as an oracle on
// arbitrary text, not only on renderings the harness made itself), foreign characters drawn from all
// of Unicode, "soup" texts; protodump on deep message trees whose sibling fields are treated
// differently at every depth, and on well-formed messages all of whose bytes belong to a text-like
// textAlpha (hex text, base64, JSON-ish, printable ASCII).

import (
	"bytes"
	"fmt"
	"strconv"
	"strings"
	"unicode"
	"unicode/utf8"

	"github.com/CrowdStrike/csproto/prototest"
	"google.golang.org/protobuf/encoding/protowire"

	"csverif/internal/fw"
	"csverif/internal/prng"
)

// ---- annotated hex: reference reading ----

func asciiHexVal(c rune) (byte, bool) {
	switch {
	case c >= '0' && c <= '9':
		return byte(c - '0'), true
	case c >= 'a' && c <= 'f':
		return byte(c-'a') + 10, true
	case c >= 'A' && c <= 'F':
		return byte(c-'A') + 10, true
	}
	return 0, false
}

// hexRef reads text one character at a time: a ';' opens a comment, a line feed closes it; outside
// comments whitespace is dropped, the sixteen ASCII hex digits (either case) denote nibbles, and
// anything else (including bytes that are not UTF-8) is foreign. Verdicts:
//
//	"accept"  - nothing foreign, every line carries whole bytes: the call must return exactly b
//	"foreign" - something other than hex digits / whitespace / comments: the call must fail
//	"odd"     - a line with an odd number of digits (a byte split over two lines, or half a byte): the
//	            call must fail (it cannot denote bytes line by line; see the assumptions of the check)
func hexRef(text string) (b []byte, verdict string, where string) {
	var line []byte
	inComment, odd, foreign := false, false, false
	lineNo := 0
	flush := func() {
		if len(line)%2 != 0 && !odd {
			odd = true
			if where == "" {
				where = fmt.Sprintf("line %d has %d hex digits", lineNo, len(line))
			}
		}
		for i := 0; i+1 < len(line); i += 2 {
			b = append(b, line[i]<<4|line[i+1])
		}
		line = line[:0]
	}
	for i := 0; i < len(text); {
		c, w := utf8.DecodeRuneInString(text[i:])
		switch {
		case c == '\n':
			flush()
			inComment = false
			lineNo++
		case inComment:
		case c == ';':
			inComment = true
		case c == utf8.RuneError && w == 1:
			if !foreign {
				foreign = true
				where = fmt.Sprintf("byte 0x%02X at offset %d (line %d) is not UTF-8", text[i], i, lineNo)
			}
		case unicode.IsSpace(c):
		default:
			if v, ok := asciiHexVal(c); ok {
				line = append(line, v)
			} else if !foreign {
				foreign = true
				where = fmt.Sprintf("character %U at offset %d (line %d) outside any comment", c, i, lineNo)
			}
		}
		i += w
	}
	flush()
	switch {
	case foreign:
		return nil, "foreign", where
	case odd:
		return nil, "odd", where
	}
	return b, "accept", ""
}

// hexRefOracle compares what ParseAnnotatedHex did with the reference reading.
func hexRefOracle(c *fw.Ctx, text string, got []byte, err error) string {
	want, verdict, where := hexRef(text)
	impl := "err"
	if err == nil {
		impl = "ok " + hexs(got)
	}
	in := map[string]string{"text": trunc(text, 600), "text_hex": trunc(hexs([]byte(text)), 1200)}
	switch {
	case verdict == "accept" && (err != nil || !bytes.Equal(got, want)):
		got := impl
		if err != nil {
			got = "err: " + err.Error()
		}
		c.Violate(fw.Violation{Stream: "hex", Signature: "hex/denoted-bytes", What: "ParseAnnotatedHex did not return the bytes denoted by the hex digits outside comments",
			Input: in, Expected: "ok " + hexs(want), Got: trunc(got, 600)})
	case verdict == "foreign" && err == nil:
		in["foreign"] = where
		c.Violate(fw.Violation{Stream: "hex", Signature: "hex/accepts-foreign", What: "text containing something other than hex digits / whitespace / comments was accepted",
			Input: in, Expected: "err", Got: trunc(impl, 600)})
	case verdict == "odd" && err == nil:
		in["odd"] = where
		c.Violate(fw.Violation{Stream: "hex", Signature: "hex/accepts-odd", What: "text with half a byte on a line was accepted",
			Input: in, Expected: "err", Got: trunc(impl, 600)})
	}
	return verdict
}

// the characters annotated hex is made of
var hexTextChars = []rune("0123456789abcdefABCDEF0123456789 \t\r\n\v\f;;\n ")

// ranges of characters that look like, or are classified as, digits / hex digits without being ASCII
var lookalikeRanges = [][2]rune{
	{0xFF10, 0xFF19}, {0xFF21, 0xFF26}, {0xFF41, 0xFF46}, // fullwidth 0-9 A-F a-f (Unicode Hex_Digit)
	{0x0660, 0x0669}, {0x06F0, 0x06F9}, {0x0966, 0x096F}, {0x09E6, 0x09EF}, {0x0E50, 0x0E59}, // Nd
	{0x1D7CE, 0x1D7FF}, {0x2460, 0x2473}, {0x2070, 0x2079}, {0x2080, 0x2089}, {0x00B2, 0x00B3}, {0x00B9, 0x00B9}, // mathematical / circled / super- / subscript digits
	{0x0410, 0x0415}, {0x0430, 0x0435}, {0x0391, 0x0395}, {0x03B1, 0x03B5}, // Cyrillic / Greek A.. a..
	{0x2160, 0x216F}, {0x2170, 0x217F}, // Roman numerals (ⅽ ⅾ ...)
	{0x1D400, 0x1D405}, {0x1D41A, 0x1D41F}, // mathematical bold A-F a-f
	{0x212A, 0x212B}, {0x017F, 0x017F}, {0x0130, 0x0131}, // characters with special case folding
}

// format / control characters that are not whitespace
var notSpace = []rune{0, 1, 0x08, 0x0E, 0x1B, 0x1C, 0x1D, 0x1E, 0x1F, 0x7F, 0x80, 0x84, 0x86, 0x9F, 0xAD, 0x200B, 0x200C, 0x200D, 0x2060, 0xFEFF, 0x180E, 0xFFFD, 0xFFFE, 0x10FFFF, 0xE000, 0x3001, 0x2027, 0x202A, 0x2010}

// badRune draws a character that is neither a hex digit, nor whitespace, nor ';' from all of Unicode,
// biased to code points that a lossy conversion (byte(c), uint16(c), case folding, "is a digit")
// turns into one of the characters of the format.
func badRune(r *prng.Rng) rune {
	for {
		var c rune
		switch r.Intn(12) {
		case 0:
			c = []rune{'g', 'x', 'Z', '-', ':', '#', '/', 'é', '.', ',', 'G', 'h', 'o', 'O', 'l', '_', '+', '"', '\'', '%', '&', '|', '\\', '<', '[', '{', '@', '`', '~', '$'}[r.Intn(30)]
		case 1, 2, 3: // the low 8 bits are a character of the format
			k := 1 + r.Intn(0x10FF)
			if r.Bool() {
				k = 1 + r.Intn(0x30) // U+0100 .. U+30FF
			}
			c = hexTextChars[r.Intn(len(hexTextChars))] + rune(k)<<8
		case 4: // the low 16 bits are
			c = hexTextChars[r.Intn(len(hexTextChars))] + rune(1+r.Intn(16))<<16
		case 5: // the low 7 bits are (Latin-1)
			c = hexTextChars[r.Intn(len(hexTextChars))] | 0x80
		case 6, 7:
			rg := lookalikeRanges[r.Intn(len(lookalikeRanges))]
			c = rg[0] + rune(r.Intn(int(rg[1]-rg[0])+1))
		case 8:
			c = notSpace[r.Intn(len(notSpace))]
		case 9:
			c = rune(r.Intn(0x110000))
		case 10:
			c = rune(r.Intn(0x3000))
		default:
			c = rune(0x21 + r.Intn(0x5E)) // printable ASCII
		}
		if !utf8.ValidRune(c) || unicode.IsSpace(c) || c == ';' {
			continue
		}
		if _, ok := asciiHexVal(c); ok {
			continue
		}
		return c
	}
}

// corruptOutsideComment puts one or two foreign characters somewhere outside the comments of text:
// between bytes, between the two digits of a byte, or in place of digits (which keeps the number of
// "digits" on the line even).
func corruptOutsideComment(r *prng.Rng, text string) string {
	runes := []rune(text)
	// outside[i]: position i (before runes[i], or the end) is outside any comment
	var gaps, digits []int
	inComment := false
	for i, c := range runes {
		if !inComment {
			gaps = append(gaps, i)
			if _, ok := asciiHexVal(c); ok {
				digits = append(digits, i)
			}
		}
		switch {
		case c == '\n':
			inComment = false
		case c == ';':
			inComment = true
		}
	}
	if !inComment {
		gaps = append(gaps, len(runes))
	}
	bad := badRune(r)
	switch mode := r.Intn(4); {
	case mode == 0 && len(digits) > 0: // in place of one digit
		runes[digits[r.Intn(len(digits))]] = bad
		return string(runes)
	case mode == 1 && len(digits) > 1: // in place of both digits of a byte, or of two digits anywhere
		i := r.Intn(len(digits) - 1)
		runes[digits[i]] = bad
		if r.Bool() {
			bad = badRune(r)
		}
		runes[digits[i+1]] = bad
		return string(runes)
	case len(gaps) == 0:
		return string(bad) + text
	default:
		ins := []rune{bad}
		if mode == 2 { // two of them, so that the line still has an even number of characters
			if r.Bool() {
				bad = badRune(r)
			}
			ins = append(ins, bad)
		}
		pos := gaps[r.Intn(len(gaps))]
		out := append([]rune{}, runes[:pos]...)
		out = append(out, ins...)
		return string(append(out, runes[pos:]...))
	}
}

var invalidUTF8 = []string{"\x80", "\xff", "\xc3", "\xc0\xb0", "\xe2\x80", "\xed\xa0\x80", "\xf4\x90\x80\x80", "\xc0\x8a", "\xe0\x80\xbb", "\xb1", "\xc3\x28"}

// hexSoupCase: text that is not a rendering of known bytes - a random sequence of the pieces the format
// is made of (digit pairs, single digits, whitespace, line breaks, comments with arbitrary content) and,
// depending on the case, foreign characters and bytes that are not UTF-8. Only the reference reading knows
// what it denotes.
func hexSoupCase(c *fw.Ctx) {
	r := c.Rng
	var sb strings.Builder
	pSingle, pBad, pInvalid := 0, 0, 0
	switch r.Intn(8) {
	case 0, 1, 2: // clean
	case 3:
		pSingle = 3
	case 4, 5:
		pBad = 3
	case 6:
		pInvalid = 3
	default:
		pSingle, pBad, pInvalid = 2, 2, 1
	}
	digit := func() {
		d := "0123456789abcdefABCDEF"
		sb.WriteByte(d[r.Intn(len(d))])
	}
	ws := func() {
		for i := 1 + r.Intn(2); i > 0; i-- {
			sb.WriteRune(spaceRunes[r.Intn(len(spaceRunes))])
		}
	}
	n := r.Intn(28)
	for i := 0; i < n; i++ {
		k := r.Intn(100)
		switch {
		case k < pBad:
			sb.WriteRune(badRune(r))
			if r.Bool() {
				sb.WriteRune(badRune(r))
			}
		case k < pBad+pInvalid:
			sb.WriteString(invalidUTF8[r.Intn(len(invalidUTF8))])
		case k < pBad+pInvalid+pSingle:
			digit()
		case k < 60:
			digit()
			if r.Chance(1, 8) {
				ws()
			}
			digit()
		case k < 75:
			ws()
		case k < 85:
			sb.WriteString([]string{"\n", "\n", "\r\n", "\n\n"}[r.Intn(4)])
		default: // a comment: anything up to the end of the line
			sb.WriteByte(';')
			for j := r.Intn(10); j > 0; j-- {
				switch r.Intn(24) {
				case 0:
					sb.WriteRune(badRune(r))
				case 1:
					sb.WriteString(invalidUTF8[r.Intn(len(invalidUTF8))])
				case 2:
					sb.WriteByte(';')
				case 3:
					ws()
				case 4:
					sb.WriteByte('\r')
				default:
					sb.WriteByte(byte(0x20 + r.Intn(0x5F)))
				}
			}
			if i < n-1 || r.Bool() {
				sb.WriteByte('\n')
			}
		}
	}
	text := sb.String()
	c.Journal("C20 hexsoup " + trunc(hexs([]byte(text)), 2000))
	got, err := func() (b []byte, err error) {
		defer func() {
			if x := recover(); x != nil {
				err = fmt.Errorf("PANIC %v", x)
			}
		}()
		return prototest.ParseAnnotatedHex(text)
	}()
	impl := "err"
	if err == nil {
		impl = "ok " + hexs(got)
	}
	c.Model("hexsoup", "T hex "+hexs([]byte(text)), impl)
	if err != nil && strings.HasPrefix(err.Error(), "PANIC") {
		c.Violate(fw.Violation{Stream: "hexsoup", Signature: "hex/panic", What: "ParseAnnotatedHex panicked", Input: text, Got: err.Error()})
	}
	verdict := hexRefOracle(c, text, got, err)
	want, _, _ := hexRef(text)
	c.Count("hexsoup", text, verdict+"/"+strings.SplitN(impl, " ", 2)[0], len(text), len(want) > 0 || verdict != "accept")
	if r.Intn(300) == 0 {
		c.Sample(map[string]interface{}{"stream": "hexsoup", "text": text, "verdict": verdict})
	}
}

// ---- protodump: paths that are easily confused ----

const maxTag = 1<<29 - 1

// confusablePaths returns paths that differ from p but are easily taken for it by a sloppy matcher or
// a cache with a weak key: prefix, extension, neighbour, zero at one level, reversed, the same digits
// cut differently, one level dropped, one level doubled.
func confusablePaths(r *prng.Rng, p []int) [][]int {
	cp := func(q []int) []int { return append([]int{}, q...) }
	var out [][]int
	if len(p) > 1 {
		out = append(out, cp(p[:len(p)-1]), cp(p[1:]))
		rev := cp(p)
		for i, j := 0, len(rev)-1; i < j; i, j = i+1, j-1 {
			rev[i], rev[j] = rev[j], rev[i]
		}
		out = append(out, rev)
		k := r.Intn(len(p))
		out = append(out, append(cp(p[:k]), p[k+1:]...))
	}
	out = append(out, append(cp(p), 1+r.Intn(3)), append(cp(p), p[len(p)-1]), append([]int{p[0]}, p...))
	nb := cp(p)
	k := r.Intn(len(p))
	if nb[k] > 1 && r.Bool() {
		nb[k]--
	} else if nb[k] < maxTag {
		nb[k]++
	}
	out = append(out, nb)
	z := cp(p)
	z[r.Intn(len(z))] = 0
	out = append(out, z)
	// the same digits, cut at other places
	var digits string
	for _, t := range p {
		digits += strconv.Itoa(t)
	}
	if len(digits) > 1 && len(digits) < 40 {
		var q []int
		rest := digits
		for rest != "" {
			n := 1 + r.Intn(3)
			if n > len(rest) {
				n = len(rest)
			}
			for n < len(rest) && rest[n] == '0' { // no part starts with a zero
				n++
			}
			v, err := strconv.Atoi(rest[:n])
			if err != nil || v > maxTag {
				q = nil
				break
			}
			q = append(q, v)
			rest = rest[n:]
		}
		if q != nil && pathStr(q) != pathStr(p) {
			out = append(out, q)
		}
	}
	return out
}

// ---- protodump: deep trees ----

var deepTags = []int{1, 2, 3, 4, 11, 12, 21, 112}

// genDeepLevel builds the message at nesting level `level` of a tree that is `depth` levels deep. Every
// message has at least two length-delimited leaf fields of different nature (printable / binary), a few
// scalars and - above the last level - one or two nested messages, in random order and mostly with
// distinct tags, so that at every depth sibling fields exist that the path sets treat differently.
func genDeepLevel(r *prng.Rng, level, depth int, parent []int, dm *dumpMsg) []byte {
	const (
		kStr = iota
		kRaw
		kMsg
		kVarint
		kFixed32
		kFixed64
		kEmpty
	)
	kinds := []int{kStr, kRaw}
	for i := r.Intn(3); i > 0; i-- {
		kinds = append(kinds, []int{kStr, kRaw, kStr, kRaw, kEmpty}[r.Intn(5)])
	}
	if level < depth {
		kinds = append(kinds, kMsg)
		if r.Chance(1, 4) {
			kinds = append(kinds, kMsg)
		}
	}
	for i := r.Intn(3); i > 0; i-- {
		kinds = append(kinds, kVarint+r.Intn(3))
	}
	for i := len(kinds) - 1; i > 0; i-- {
		j := r.Intn(i + 1)
		kinds[i], kinds[j] = kinds[j], kinds[i]
	}
	tags := append([]int{}, deepTags...)
	for i := len(tags) - 1; i > 0; i-- {
		j := r.Intn(i + 1)
		tags[i], tags[j] = tags[j], tags[i]
	}
	var msg []byte
	// a repeated tag gives the same path again; a path holds either messages or leaves, never both (expanding a
	// leaf ends the dump with an error, which is the business of dumpRun's own case)
	var msgTags, leafTags []int
	fresh := func() int {
		if len(tags) == 0 || r.Chance(1, 12) {
			for {
				t := genTag(r)
				clash := false
				for _, u := range deepTags {
					clash = clash || u == t
				}
				for _, u := range append(append([]int{}, msgTags...), leafTags...) {
					clash = clash || u == t
				}
				if !clash {
					return t
				}
			}
		}
		t := tags[0]
		tags = tags[1:]
		return t
	}
	for _, k := range kinds {
		var tag int
		switch {
		case (k == kMsg || k == kEmpty) && len(msgTags) > 0 && r.Chance(1, 5):
			tag = msgTags[r.Intn(len(msgTags))]
		case (k == kStr || k == kRaw) && len(leafTags) > 0 && r.Chance(1, 5):
			tag = leafTags[r.Intn(len(leafTags))]
		case k >= kVarint && k <= kFixed64 && len(msgTags)+len(leafTags) > 0 && r.Chance(1, 4):
			// a scalar with the number of a length-delimited sibling
			all := append(append([]int{}, msgTags...), leafTags...)
			tag = all[r.Intn(len(all))]
		default:
			tag = fresh()
			switch k {
			case kMsg, kEmpty:
				msgTags = append(msgTags, tag)
			case kStr, kRaw:
				leafTags = append(leafTags, tag)
			}
		}
		num := protowire.Number(tag)
		path := append(append([]int{}, parent...), tag)
		switch k {
		case kVarint:
			msg = protowire.AppendVarint(protowire.AppendTag(msg, num, protowire.VarintType), r.U64Interesting())
		case kFixed32:
			msg = protowire.AppendFixed32(protowire.AppendTag(msg, num, protowire.Fixed32Type), uint32(r.U64Interesting()))
		case kFixed64:
			msg = protowire.AppendFixed64(protowire.AppendTag(msg, num, protowire.Fixed64Type), r.U64Interesting())
		case kStr:
			msg = protowire.AppendBytes(protowire.AppendTag(msg, num, protowire.BytesType), asciiBytes(r, 1+r.Intn(6)))
			dm.strs = append(dm.strs, path)
			dm.all = append(dm.all, path)
		case kRaw:
			msg = protowire.AppendBytes(protowire.AppendTag(msg, num, protowire.BytesType), r.Bytes(1+r.Intn(5)))
			dm.all = append(dm.all, path)
		case kEmpty:
			msg = protowire.AppendBytes(protowire.AppendTag(msg, num, protowire.BytesType), nil)
			dm.paths = append(dm.paths, path) // an empty message
			dm.all = append(dm.all, path)
		case kMsg:
			inner := genDeepLevel(r, level+1, depth, path, dm)
			msg = protowire.AppendBytes(protowire.AppendTag(msg, num, protowire.BytesType), inner)
			dm.paths = append(dm.paths, path)
			dm.all = append(dm.all, path)
		}
	}
	return msg
}

func deepDumpCase(c *fw.Ctx, d *dumper) {
	r := c.Rng
	dm := &dumpMsg{}
	depth := 3 + r.Intn(8) // 3..10 nested levels below the top: paths of up to 11 elements
	if r.Chance(1, 8) {
		depth = 10 + r.Intn(8)
	}
	data := genDeepLevel(r, 0, depth, nil, dm)
	kind := "valid"
	if r.Chance(1, 12) && len(data) > 0 {
		data = data[:r.Intn(len(data))]
		kind = "truncated"
	}
	// nearly everything on the way down is expanded, so that the deep levels are reached
	num, den := 9, 10
	switch r.Intn(4) {
	case 0:
		num, den = 1, 1
	case 1:
		num, den = 3, 4
	}
	dumpRun(c, d, "dumpdeep", fmt.Sprintf("%s/depth%d", kind, depth), data, dm, dumpOpt{num, den, 1, 2, false})
}

// ladderCase: the smallest trees of the family - a chain of `depth` nested messages, each holding just the
// next one (every == false) or also a group of siblings (every == true), and at the bottom a group of three
// to five length-delimited siblings with distinct numbers: raw bytes, a string (requested with -strings), a
// message (requested with -expand), in random order. Everything on the chain is expanded. One per depth, so
// that a treatment of siblings that depends on how deep they sit shows on a small input.
func ladderCase(c *fw.Ctx, d *dumper, depth int, every bool) {
	r := c.Rng
	dm := &dumpMsg{}
	group := func(parent []int, skip int) []byte {
		var out []byte
		tags := []int{1, 2, 3, 4, 5, 6}
		for i := len(tags) - 1; i > 0; i-- {
			j := r.Intn(i + 1)
			tags[i], tags[j] = tags[j], tags[i]
		}
		kinds := []int{0, 1, 2}
		for i := r.Intn(3); i > 0; i-- {
			kinds = append(kinds, r.Intn(3))
		}
		for i := len(kinds) - 1; i > 0; i-- {
			j := r.Intn(i + 1)
			kinds[i], kinds[j] = kinds[j], kinds[i]
		}
		k := 0
		for _, kind := range kinds {
			if tags[k] == skip {
				k++
			}
			tag := tags[k]
			k++
			path := append(append([]int{}, parent...), tag)
			var val []byte
			switch kind {
			case 0:
				val = r.Bytes(2)
				val[0] |= 0x80 // not printable, not a message
			case 1:
				val = []byte([]string{"hi", "yo", "abc", "x"}[r.Intn(4)])
				dm.strs = append(dm.strs, path)
			default:
				val = protowire.AppendVarint(protowire.AppendTag(nil, protowire.Number(1+r.Intn(3)), protowire.VarintType), uint64(r.Intn(100)))
				dm.paths = append(dm.paths, path)
			}
			dm.all = append(dm.all, path)
			out = protowire.AppendBytes(protowire.AppendTag(out, protowire.Number(tag), protowire.BytesType), val)
		}
		return out
	}
	spine := make([]int, depth)
	for i := range spine {
		spine[i] = 1 + r.Intn(3)
	}
	msg := group(spine, 0)
	for i := depth - 1; i >= 0; i-- {
		path := append([]int{}, spine[:i+1]...)
		dm.paths = append(dm.paths, path)
		dm.all = append(dm.all, path)
		wrapped := protowire.AppendBytes(protowire.AppendTag(nil, protowire.Number(spine[i]), protowire.BytesType), msg)
		if every {
			g := group(spine[:i], spine[i])
			if r.Bool() {
				wrapped = append(g, wrapped...)
			} else {
				wrapped = append(wrapped, g...)
			}
		}
		msg = wrapped
	}
	dumpRun(c, d, "dumpdeep", fmt.Sprintf("valid/ladder%d", depth), msg, dm, dumpOpt{1, 1, 1, 1, true})
}

// ---- protodump: messages that look like text ----

type textAlpha struct {
	name  string
	chars []byte
	keys  [8][]byte // usable one-byte keys by wire type
}

func mkAlphabet(name, chars string) *textAlpha {
	a := &textAlpha{name: name}
	seen := map[byte]bool{}
	for i := 0; i < len(chars); i++ {
		b := chars[i]
		if seen[b] || b >= 0x80 {
			continue
		}
		seen[b] = true
		a.chars = append(a.chars, b)
		if b>>3 >= 1 {
			a.keys[b&7] = append(a.keys[b&7], b)
		}
	}
	return a
}

const hexDigitsBoth = "0123456789abcdefABCDEF"

// alphabets of formats a tool might be tempted to recognise by looking at the data. Every one of them
// contains one-byte keys of varint, fixed32, fixed64 and length-delimited fields, so well-formed
// messages exist that consist of nothing else.
var textAlphabets = []*textAlpha{
	mkAlphabet("hex-lower", "0123456789abcdef"),
	mkAlphabet("hex-upper", "0123456789ABCDEF"),
	mkAlphabet("hex-spaced", hexDigitsBoth+hexDigitsBoth+"  \t\r\n"),
	mkAlphabet("annotated-hex", hexDigitsBoth+hexDigitsBoth+"   \t\r\n\n;"),
	mkAlphabet("base64", "ABCDEFGHIJKLMNOPQRSTUVWXYZabcdefghijklmnopqrstuvwxyz0123456789+/="),
	mkAlphabet("base64url-lines", "ABCDEFGHIJKLMNOPQRSTUVWXYZabcdefghijklmnopqrstuvwxyz0123456789-_\n"),
	mkAlphabet("json-ish", "{}[]\":,0123456789.-+eE \n\ttruefalsn"),
	mkAlphabet("decimal", "0123456789 \n"),
	mkAlphabet("printable", func() string {
		var s []byte
		for b := byte(0x20); b < 0x7F; b++ {
			s = append(s, b)
		}
		return string(s) + "\n\t\r"
	}()),
	mkAlphabet("whitespace+digits", " \t\r\n\v\f0123456789"),
}

func (a *textAlpha) pick(r *prng.Rng) byte { return a.chars[r.Intn(len(a.chars))] }
func (a *textAlpha) fill(r *prng.Rng, n int) []byte {
	b := make([]byte, n)
	for i := range b {
		b[i] = a.pick(r)
	}
	return b
}

// exactly n bytes of well-formed message over the textAlpha; ok=false if the textAlpha cannot do it
func (a *textAlpha) exact(r *prng.Rng, n, level int, parent []int, dm *dumpMsg) ([]byte, bool) {
	feasible := func(rem int) bool { return rem == 0 || rem == 2 || rem >= 4 }
	if !feasible(n) || len(a.keys[0]) == 0 || len(a.keys[5]) == 0 {
		return nil, false
	}
	var msg []byte
	for rem := n; rem > 0; {
		type shape struct{ wt, size, l int }
		var shapes []shape
		if feasible(rem - 2) {
			shapes = append(shapes, shape{0, 2, 0}, shape{0, 2, 0})
		}
		if rem >= 5 && feasible(rem-5) {
			shapes = append(shapes, shape{5, 5, 0})
		}
		if rem >= 9 && feasible(rem-9) && len(a.keys[1]) > 0 {
			shapes = append(shapes, shape{1, 9, 0})
		}
		if len(a.keys[2]) > 0 {
			for _, lb := range a.chars {
				l := int(lb)
				if 2+l <= rem && feasible(rem-2-l) {
					shapes = append(shapes, shape{2, 2 + l, l})
				}
			}
		}
		if len(shapes) == 0 {
			return nil, false
		}
		s := shapes[r.Intn(len(shapes))]
		msg = a.field(r, msg, s.wt, s.l, level, parent, dm)
		rem -= s.size
	}
	return msg, true
}

// field appends one field of wire type wt (length l for length-delimited ones)
func (a *textAlpha) field(r *prng.Rng, msg []byte, wt, l, level int, parent []int, dm *dumpMsg) []byte {
	key := a.keys[wt][r.Intn(len(a.keys[wt]))]
	msg = append(msg, key)
	path := append(append([]int{}, parent...), int(key>>3))
	switch wt {
	case 0:
		msg = append(msg, a.pick(r))
	case 5:
		msg = append(msg, a.fill(r, 4)...)
	case 1:
		msg = append(msg, a.fill(r, 8)...)
	case 2:
		msg = append(msg, byte(l))
		if level < 3 && r.Bool() {
			if inner, ok := a.exact(r, l, level+1, path, dm); ok {
				dm.paths = append(dm.paths, path)
				dm.all = append(dm.all, path)
				return append(msg, inner...)
			}
		}
		msg = append(msg, a.fill(r, l)...)
		dm.strs = append(dm.strs, path)
		dm.all = append(dm.all, path)
	}
	return msg
}

// message: a well-formed message of a few fields all of whose bytes belong to the textAlpha
func (a *textAlpha) message(r *prng.Rng, dm *dumpMsg) []byte {
	var msg []byte
	var wts []int
	for wt, ks := range a.keys {
		if len(ks) > 0 && (wt == 0 || wt == 1 || wt == 2 || wt == 5) {
			wts = append(wts, wt)
			if wt == 0 || wt == 2 {
				wts = append(wts, wt)
			}
		}
	}
	if len(wts) == 0 {
		return nil
	}
	n := 1 + r.Intn(4)
	if r.Chance(1, 5) {
		n += r.Intn(12)
	}
	for i := 0; i < n; i++ {
		wt := wts[r.Intn(len(wts))]
		l := 0
		if wt == 2 {
			l = int(a.pick(r))
		}
		msg = a.field(r, msg, wt, l, 0, nil, dm)
	}
	return msg
}

func textDumpCase(c *fw.Ctx, d *dumper) {
	r := c.Rng
	a := textAlphabets[r.Intn(len(textAlphabets))]
	dm := &dumpMsg{}
	data := a.message(r, dm)
	kind := "valid"
	if r.Chance(1, 10) && len(data) > 1 {
		data = data[:1+r.Intn(len(data)-1)]
		kind = "truncated"
	}
	dumpRun(c, d, "dumptext", kind+"/"+a.name, data, dm, dumpOpt{2, 3, 1, 2, false})
}
