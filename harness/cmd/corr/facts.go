package main

import (
	"os"
	"os/exec"
	"path/filepath"
	"strings"

	"csverif/internal/fw"
)

// extractFacts regenerates lean/Csproto/Generated/*.lean from /repo's current source.
func extractFacts(c *fw.Ctx) []string {
	bin := filepath.Join(fw.VerifDir, "harness/bin/extract")
	cmd := exec.Command(bin, "-repo", fw.RepoDir, "-out", filepath.Join(fw.VerifDir, "lean/Csproto/Generated"))
	out, err := cmd.CombinedOutput()
	if err != nil {
		c.BrokenProof = append(c.BrokenProof, "fact extraction failed: "+strings.TrimSpace(string(out)))
		return nil
	}
	var facts []string
	for _, l := range strings.Split(string(out), "\n") {
		if strings.HasPrefix(l, "fact ") {
			facts = append(facts, strings.TrimPrefix(l, "fact "))
		}
	}
	_ = os.Stdout
	return facts
}
