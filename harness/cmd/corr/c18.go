package main

// C18: the JSON adapters against the owning runtime's own JSON codec, on every message type of the
// six example packages (gogo / golang-v1 API / google v2, proto2 and proto3) with random values.

import (
	"bytes"
	"compress/gzip"
	"encoding/json"
	"fmt"
	"io"
	"reflect"
	"sort"
	"strings"
	"unicode/utf8"

	"github.com/CrowdStrike/csproto"
	gogojsonpb "github.com/gogo/protobuf/jsonpb"
	gogoproto "github.com/gogo/protobuf/proto"
	"google.golang.org/protobuf/encoding/protojson"
	"google.golang.org/protobuf/proto"
	"google.golang.org/protobuf/reflect/protodesc"
	"google.golang.org/protobuf/reflect/protoreflect"
	"google.golang.org/protobuf/reflect/protoregistry"
	"google.golang.org/protobuf/types/descriptorpb"

	_ "github.com/gogo/protobuf/types"
	_ "google.golang.org/protobuf/types/known/durationpb"
	_ "google.golang.org/protobuf/types/known/emptypb"
	_ "google.golang.org/protobuf/types/known/fieldmaskpb"
	_ "google.golang.org/protobuf/types/known/structpb"
	_ "google.golang.org/protobuf/types/known/timestamppb"
	_ "google.golang.org/protobuf/types/known/wrapperspb"

	"csverif/gencheck"
	"csverif/internal/fw"
)

func init() { props["C18"] = runC18 }

type jsonType struct {
	name  string
	gogo  bool
	md    protoreflect.MessageDescriptor
	fresh func() interface{}
	wkt   bool // a well-known type used as the TOP-LEVEL message: its JSON form is not an object of its fields
}

// the well-known types with a JSON mapping of their own (null, bare numbers and strings, arrays, RFC 3339 text);
// structpb's three types also implement encoding/json's interfaces themselves
var wktFiles = []string{"google/protobuf/struct.proto", "google/protobuf/timestamp.proto", "google/protobuf/duration.proto",
	"google/protobuf/wrappers.proto", "google/protobuf/field_mask.proto", "google/protobuf/empty.proto"}

var exampleFiles = []struct {
	file string
	gogo bool
}{
	{"gogo_proto2_example.proto", true}, {"gogo_proto3_example.proto", true},
	{"googlev1_proto2_example.proto", false}, {"googlev1_proto3_example.proto", false},
	{"googlev2_proto2_example.proto", false}, {"googlev2_proto3_example.proto", false},
}

func gogoFileDesc(name string) (protoreflect.FileDescriptor, error) {
	gz := gogoproto.FileDescriptor(name)
	if gz == nil {
		return nil, fmt.Errorf("%s not registered with gogo", name)
	}
	r, err := gzip.NewReader(bytes.NewReader(gz))
	if err != nil {
		return nil, err
	}
	raw, err := io.ReadAll(r)
	if err != nil {
		return nil, err
	}
	fdp := &descriptorpb.FileDescriptorProto{}
	if err := proto.Unmarshal(raw, fdp); err != nil {
		return nil, err
	}
	return protodesc.NewFile(fdp, protoregistry.GlobalFiles)
}

func jsonCorpus() ([]jsonType, error) {
	var out []jsonType
	for _, f := range exampleFiles {
		var fd protoreflect.FileDescriptor
		var err error
		if f.gogo {
			fd, err = gogoFileDesc(f.file)
		} else {
			fd, err = protoregistry.GlobalFiles.FindFileByPath(f.file)
		}
		if err != nil {
			return nil, err
		}
		var walk func(ms protoreflect.MessageDescriptors)
		walk = func(ms protoreflect.MessageDescriptors) {
			for i := 0; i < ms.Len(); i++ {
				md := ms.Get(i)
				if md.IsMapEntry() {
					continue
				}
				jt := jsonType{name: string(md.FullName()), gogo: f.gogo, md: md}
				if f.gogo {
					rt := gogoproto.MessageType(string(md.FullName()))
					if rt == nil {
						continue
					}
					jt.fresh = func() interface{} { return reflect.New(rt.Elem()).Interface() }
				} else {
					mt, err := protoregistry.GlobalTypes.FindMessageByName(md.FullName())
					if err != nil {
						continue
					}
					jt.fresh = func() interface{} { return mt.New().Interface() }
				}
				out = append(out, jt)
				walk(md.Messages())
			}
		}
		walk(fd.Messages())
	}
	// … and the well-known types themselves as top-level messages, for the Google and the Gogo runtime
	for _, gogo := range []bool{false, true} {
		for _, f := range wktFiles {
			var fd protoreflect.FileDescriptor
			var err error
			if gogo {
				fd, err = gogoFileDesc(f)
			} else {
				fd, err = protoregistry.GlobalFiles.FindFileByPath(f)
			}
			if err != nil {
				return nil, fmt.Errorf("well-known file %s (gogo=%v): %w", f, gogo, err)
			}
			for i := 0; i < fd.Messages().Len(); i++ {
				md := fd.Messages().Get(i)
				jt := jsonType{name: string(md.FullName()), gogo: gogo, md: md, wkt: true}
				if gogo {
					jt.name = "gogo:" + jt.name
					rt := gogoproto.MessageType(string(md.FullName()))
					if rt == nil {
						continue
					}
					jt.fresh = func() interface{} { return reflect.New(rt.Elem()).Interface() }
				} else {
					mt, err := protoregistry.GlobalTypes.FindMessageByName(md.FullName())
					if err != nil {
						continue
					}
					jt.fresh = func() interface{} { return mt.New().Interface() }
				}
				out = append(out, jt)
			}
		}
	}
	return out, nil
}

func (t jsonType) unmarshalWire(b []byte, m interface{}) error {
	if t.gogo {
		return gogoproto.Unmarshal(b, m.(gogoproto.Message))
	}
	return proto.UnmarshalOptions{AllowPartial: true}.Unmarshal(b, m.(proto.Message))
}

func (t jsonType) equal(a, b interface{}) bool {
	if t.gogo {
		return gogoproto.Equal(a.(gogoproto.Message), b.(gogoproto.Message))
	}
	return proto.Equal(a.(proto.Message), b.(proto.Message))
}

// the owning runtime's own JSON codec with the options csproto documents as equivalent
func (t jsonType) runtimeMarshal(m interface{}, indent string, enumNumbers, zero bool) ([]byte, error) {
	if t.gogo {
		var buf bytes.Buffer
		err := (&gogojsonpb.Marshaler{Indent: indent, EnumsAsInts: enumNumbers, EmitDefaults: zero}).Marshal(&buf, m.(gogoproto.Message))
		return buf.Bytes(), err
	}
	return protojson.MarshalOptions{Indent: indent, UseEnumNumbers: enumNumbers, EmitUnpopulated: zero}.Marshal(m.(proto.Message))
}

func (t jsonType) runtimeUnmarshal(b []byte, m interface{}, allowUnknown, allowPartial bool) error {
	if t.gogo {
		return (&gogojsonpb.Unmarshaler{AllowUnknownFields: allowUnknown}).Unmarshal(bytes.NewReader(b), m.(gogoproto.Message))
	}
	return protojson.UnmarshalOptions{DiscardUnknown: allowUnknown, AllowPartial: allowPartial}.Unmarshal(b, m.(proto.Message))
}

func sameJSON(a, b []byte) bool {
	var x, y interface{}
	if json.Unmarshal(a, &x) != nil || json.Unmarshal(b, &y) != nil {
		return false
	}
	return reflect.DeepEqual(x, y)
}

// indentOK: with an indent every line but the first starts with a whole number of indent units and the
// text has line breaks; without one there is no line break at all.
func indentOK(b []byte, indent string) bool {
	s := string(b)
	if indent == "" {
		return !strings.Contains(s, "\n")
	}
	if s == "{}" {
		return true
	}
	lines := strings.Split(s, "\n")
	if len(lines) < 2 {
		return false
	}
	for _, l := range lines[1:] {
		rest := l
		for strings.HasPrefix(rest, indent) {
			rest = rest[len(indent):]
		}
		if strings.HasPrefix(rest, " ") || strings.HasPrefix(rest, "\t") {
			return false
		}
	}
	return true
}

// enumShapeOK: every enum-typed value of the object (top level, lists, map values; nested messages
// recursively) is a number iff enumNumbers (names otherwise; unknown numbers are always numbers)
func enumShapeOK(md protoreflect.MessageDescriptor, v interface{}, enumNumbers bool) bool {
	obj, ok := v.(map[string]interface{})
	if !ok {
		return true // well-known types with special JSON forms
	}
	if strings.HasPrefix(string(md.FullName()), "google.protobuf.") {
		return true
	}
	for i := 0; i < md.Fields().Len(); i++ {
		fd := md.Fields().Get(i)
		val, present := obj[fd.JSONName()]
		if !present {
			val, present = obj[string(fd.Name())]
		}
		if !present || val == nil {
			continue
		}
		check := func(x interface{}, efd protoreflect.FieldDescriptor) bool {
			switch {
			case efd.Enum() != nil:
				if efd.Enum().FullName() == "google.protobuf.NullValue" {
					return true
				}
				_, isNum := x.(float64)
				name, isStr := x.(string)
				if enumNumbers {
					return isNum
				}
				return (isStr && efd.Enum().Values().ByName(protoreflect.Name(name)) != nil) || isNum
			case efd.Message() != nil:
				return enumShapeOK(efd.Message(), x, enumNumbers)
			}
			return true
		}
		switch {
		case fd.IsMap():
			if mp, ok := val.(map[string]interface{}); ok {
				for _, x := range mp {
					if !check(x, fd.MapValue()) {
						return false
					}
				}
			}
		case fd.IsList():
			if l, ok := val.([]interface{}); ok {
				for _, x := range l {
					if !check(x, fd) {
						return false
					}
				}
			}
		default:
			if !check(val, fd) {
				return false
			}
		}
	}
	return true
}

// zeroValuesOK: with emitZeroValues every field without presence (proto3 scalars, lists, maps) has a key
func zeroValuesOK(md protoreflect.MessageDescriptor, v interface{}) (bool, string) {
	obj, ok := v.(map[string]interface{})
	if !ok || strings.HasPrefix(string(md.FullName()), "google.protobuf.") {
		return true, ""
	}
	for i := 0; i < md.Fields().Len(); i++ {
		fd := md.Fields().Get(i)
		if fd.HasPresence() && !fd.IsList() && !fd.IsMap() {
			continue
		}
		if fd.ContainingOneof() != nil {
			continue
		}
		if _, ok := obj[fd.JSONName()]; !ok {
			if _, ok := obj[string(fd.Name())]; !ok {
				return false, string(fd.Name())
			}
		}
	}
	return true, ""
}

// sanitizeForJSON keeps the random value inside what proto3 JSON can represent and what `Equal` can
// compare: no NaN (NaN != NaN under every runtime's Equal), timestamps and durations in their valid ranges.
func sanitizeForJSON(m protoreflect.Message) {
	fixScalar := func(fd protoreflect.FieldDescriptor, v protoreflect.Value) protoreflect.Value {
		if fd.Kind() == protoreflect.StringKind && !utf8.ValidString(v.String()) {
			// JSON is UTF-8 text: a (proto2) string that is not valid UTF-8 has no JSON form that decodes back to it
			v = protoreflect.ValueOfString(strings.ToValidUTF8(v.String(), "é"))
		}
		if fd.Kind() == protoreflect.StringKind && len(v.String())%5 == 3 {
			// text that looks like JSON syntax and like the marshalers' own layout (spaces after a colon,
			// line breaks followed by indentation, quotes, braces): it must come back unchanged
			spice := []string{"a:  b", "{\"k\":  \"v\"}", "x\n  y", "\":  \"", "t\t:  x,\n\t\"z\": [ 1,  2 ]", "\\u0041:  \\n", "</script>:  &amp;"}
			return protoreflect.ValueOfString(spice[len(v.String())/5%len(spice)] + v.String())
		}
		if (fd.Kind() == protoreflect.FloatKind || fd.Kind() == protoreflect.DoubleKind) && v.Float() != v.Float() {
			if fd.Kind() == protoreflect.FloatKind {
				return protoreflect.ValueOfFloat32(1.5)
			}
			return protoreflect.ValueOfFloat64(1.5)
		}
		return v
	}
	switch m.Descriptor().FullName() {
	case "google.protobuf.Timestamp", "google.protobuf.Duration":
		fs := m.Descriptor().Fields()
		sec, nan := m.Get(fs.ByName("seconds")).Int()%100000000000, m.Get(fs.ByName("nanos")).Int()%1000000000
		if nan < 0 {
			nan = -nan
		}
		if m.Descriptor().FullName() == "google.protobuf.Duration" && sec < 0 {
			nan = -nan
		}
		if m.Descriptor().FullName() == "google.protobuf.Timestamp" && sec < -62135596800 {
			sec = -sec
		}
		m.Set(fs.ByName("seconds"), protoreflect.ValueOfInt64(sec))
		m.Set(fs.ByName("nanos"), protoreflect.ValueOfInt32(int32(nan)))
		return
	}
	m.Range(func(fd protoreflect.FieldDescriptor, v protoreflect.Value) bool {
		switch {
		case fd.IsMap():
			v.Map().Range(func(k protoreflect.MapKey, mv protoreflect.Value) bool {
				if fd.MapValue().Message() != nil {
					sanitizeForJSON(mv.Message())
				} else {
					v.Map().Set(k, fixScalar(fd.MapValue(), mv))
				}
				return true
			})
		case fd.IsList():
			for i := 0; i < v.List().Len(); i++ {
				if fd.Message() != nil {
					sanitizeForJSON(v.List().Get(i).Message())
				} else {
					v.List().Set(i, fixScalar(fd, v.List().Get(i)))
				}
			}
		case fd.Message() != nil:
			sanitizeForJSON(v.Message())
		default:
			m.Set(fd, fixScalar(fd, v))
		}
		return true
	})
}

var lastJSONLive, lastJSONSnap []byte
var lastJSONDesc string

func jsonCase(c *fw.Ctx, t jsonType) {
	r := c.Rng
	ref := gencheck.RandMessage(r, t.md, true)
	sanitizeForJSON(ref)
	wire, err := proto.MarshalOptions{Deterministic: true, AllowPartial: true}.Marshal(ref)
	if err != nil {
		return
	}
	m := t.fresh()
	if t.unmarshalWire(wire, m) != nil {
		return
	}
	// legal indentation strings: any mix of spaces and tabs, one or several characters
	indent := []string{"", "", "  ", "\t", "    ", " ", "\t\t", " \t", "\t ", "  \t", "\t  \t"}[r.Intn(11)]
	enumNumbers, zero := r.Intn(2) == 0, r.Intn(2) == 0
	desc := map[string]interface{}{"type": t.name, "wire": trunc(fmt.Sprintf("%x", wire), 300), "indent": indent, "enumNumbers": enumNumbers, "zeroValues": zero}
	viol := func(sig, what, want, got string) {
		c.Violate(fw.Violation{Stream: "json", Signature: sig, What: what, Input: desc, Expected: trunc(want, 400), Got: trunc(got, 400)})
	}
	var b []byte
	if p := safely(func() {
		b, err = csproto.JSONMarshaler(m, csproto.JSONIndent(indent), csproto.JSONUseEnumNumbers(enumNumbers), csproto.JSONIncludeZeroValues(zero)).MarshalJSON()
	}); p != "" {
		viol("json/marshal-panic", "JSONMarshaler panicked", "no panic", p)
		return
	}
	// an earlier output must not change when the adapter is used again
	if lastJSONLive != nil && !bytes.Equal(lastJSONLive, lastJSONSnap) {
		viol("json/earlier-output-overwritten", "the bytes returned by an earlier MarshalJSON call changed when MarshalJSON was called again ("+lastJSONDesc+")",
			trunc(string(lastJSONSnap), 300), trunc(string(lastJSONLive), 300))
	}
	if err == nil {
		lastJSONLive, lastJSONSnap, lastJSONDesc = b, append([]byte{}, b...), t.name
	}
	want, werr := t.runtimeMarshal(m, indent, enumNumbers, zero)
	if (err == nil) != (werr == nil) {
		viol("json/marshal-error-differs", "the adapter and the owning runtime's JSON marshaler disagree on success", fmt.Sprint(werr), fmt.Sprint(err))
		return
	}
	outcome := "ok"
	if err != nil {
		c.Count("json", fmt.Sprint(desc), "both-fail", len(wire), true)
		return
	}
	// a value the owning runtime's OWN JSON codec cannot take through marshal + unmarshal (Gogo: a Duration beyond
	// time.Duration's range, an infinite number inside a Struct, …) has no JSON form to speak of: no round trip is
	// asked of the adapter either.  The gate looks at the runtime's codec only, never at csproto.
	if self := t.fresh(); t.runtimeUnmarshal(want, self, false, true) != nil || !t.equal(m, self) {
		c.Count("json", fmt.Sprint(desc), "runtime-codec-cannot-round-trip-this-value", len(wire), true)
		return
	}
	switch {
	case !json.Valid(b):
		outcome = "not-json"
		viol("json/not-well-formed", "the adapter's output is not well-formed JSON", "valid JSON", string(b))
	case t.wkt:
		// no object of the type's own fields: the layout / enum / zero-value checks do not apply
	case !indentOK(b, indent):
		outcome = "indent"
		viol("json/indent", "the indentation option does not have its documented effect", fmt.Sprintf("indent %q", indent), string(b))
	default:
		var generic interface{}
		json.Unmarshal(b, &generic)
		if !enumShapeOK(t.md, generic, enumNumbers) {
			outcome = "enum-shape"
			viol("json/enum-numbers", "enum values do not follow the enum-numbers option", fmt.Sprintf("numbers=%v", enumNumbers), string(b))
		}
		if zero {
			if ok, missing := zeroValuesOK(t.md, generic); !ok {
				outcome = "zero-values"
				viol("json/zero-values", "a zero-valued field is missing although zero values are included", "key "+missing, string(b))
			}
		}
	}
	// informational only: the property does not ask for the runtime marshaler's exact text (gogo messages
	// are served by the golang jsonpb arm, which e.g. keeps a -0.0 that gogo's own marshaler drops)
	if outcome == "ok" && !sameJSON(b, want) {
		outcome = "ok (text differs from the owning runtime's marshaler)"
	}
	// both decoders accept the text and get the original back
	m2 := t.fresh()
	var uerr error
	if p := safely(func() { uerr = csproto.JSONUnmarshaler(m2).UnmarshalJSON(b) }); p != "" {
		viol("json/unmarshal-panic", "JSONUnmarshaler panicked", "no panic", p)
		return
	}
	if uerr != nil || !t.equal(m, m2) {
		outcome = "adapter-roundtrip"
		viol("json/adapter-roundtrip", "the unmarshaling adapter does not give the original message back", fmt.Sprint(m), fmt.Sprintf("%v err=%v", m2, uerr))
	}
	m3 := t.fresh()
	if rerr := t.runtimeUnmarshal(b, m3, false, false); rerr != nil || !t.equal(m, m3) {
		outcome = "runtime-roundtrip"
		viol("json/runtime-roundtrip", "the owning runtime's JSON decoder does not accept the adapter's output / decodes another message", fmt.Sprint(m), fmt.Sprintf("%v err=%v", m3, rerr))
	}
	// unknown keys
	if bytes.HasPrefix(bytes.TrimSpace(b), []byte("{")) && !strings.HasPrefix(string(t.md.FullName()), "google.protobuf.") {
		var obj map[string]json.RawMessage
		if json.Unmarshal(b, &obj) == nil {
			obj["zzNoSuchField"] = json.RawMessage(`{"a":[1,2,{"b":null}]}`)
			withUnknown, _ := json.Marshal(obj)
			m4, m5 := t.fresh(), t.fresh()
			strict := csproto.JSONUnmarshaler(m4).UnmarshalJSON(withUnknown)
			lax := csproto.JSONUnmarshaler(m5, csproto.JSONAllowUnknownFields(true)).UnmarshalJSON(withUnknown)
			if strict == nil || lax != nil || !t.equal(m, m5) {
				outcome = "unknown-keys"
				viol("json/unknown-keys", "the unknown-fields option does not have its documented effect", "error without the option; with it: accepted and equal", fmt.Sprintf("strict err=%v lax err=%v", strict, lax))
			}
			// missing required field (proto2, google runtimes): tolerated only with the option
			if !t.gogo {
				for i := 0; i < t.md.Fields().Len(); i++ {
					fd := t.md.Fields().Get(i)
					if fd.Cardinality() != protoreflect.Required {
						continue
					}
					delete(obj, "zzNoSuchField")
					if _, ok := obj[fd.JSONName()]; !ok {
						continue
					}
					delete(obj, fd.JSONName())
					partial, _ := json.Marshal(obj)
					m6, m7 := t.fresh(), t.fresh()
					strict := csproto.JSONUnmarshaler(m6).UnmarshalJSON(partial)
					lax := csproto.JSONUnmarshaler(m7, csproto.JSONAllowPartialMessages(true)).UnmarshalJSON(partial)
					if strict == nil || lax != nil {
						outcome = "partial"
						viol("json/allow-partial", "the partial-messages option does not have its documented effect", "error without the option, accepted with it", fmt.Sprintf("strict err=%v lax err=%v", strict, lax))
					}
					break
				}
			}
		}
	}
	c.Count("json", fmt.Sprint(desc)+string(b), outcome, len(b), len(wire) > 0)
}

func jsonNilCases(c *fw.Ctx, ts []jsonType) {
	check := func(name string, msg interface{}) {
		var b []byte
		var err error
		desc := map[string]interface{}{"value": name}
		if p := safely(func() { b, err = csproto.JSONMarshaler(msg).MarshalJSON() }); p != "" || b != nil || err != nil {
			c.Violate(fw.Violation{Stream: "nil", Signature: "json/nil-marshal", What: "a nil message must marshal to nothing", Input: desc, Expected: "nil, nil", Got: fmt.Sprintf("%q %v %s", b, err, p)})
		}
		var uerr error
		if p := safely(func() { uerr = csproto.JSONUnmarshaler(msg).UnmarshalJSON([]byte("{}")) }); p != "" || uerr == nil {
			c.Violate(fw.Violation{Stream: "nil", Signature: "json/nil-unmarshal", What: "unmarshaling into nil must be an error", Input: desc, Expected: "error", Got: fmt.Sprintf("%v %s", uerr, p)})
		}
		c.Count("nil", name, "checked", 0, true)
	}
	check("untyped nil", nil)
	for _, t := range ts {
		typedNil := reflect.Zero(reflect.TypeOf(t.fresh())).Interface()
		check("typed nil "+t.name, typedNil)
	}
}

func runC18(c *fw.Ctx) int {
	c.Facts = extractFacts(c)
	c.Prove("C18")
	ts, err := jsonCorpus()
	if err != nil {
		c.BrokenProof = append(c.BrokenProof, "json corpus: "+err.Error())
	}
	if rs, err := requiredSchemas(); err != nil {
		c.BrokenProof = append(c.BrokenProof, "json corpus: "+err.Error())
	} else {
		ts = append(ts, rs...)
	}
	n := 12
	if c.Tier == "thorough" {
		n = 600
	}
	for i := 0; i < n; i++ {
		for _, t := range ts {
			jsonCase(c, t)
		}
	}
	// required fields anywhere in the message tree (proto3 messages that embed proto2 messages included)
	requiredStream(c, ts, 3*n)
	jsonNilCases(c, ts)
	var names []string
	for _, t := range ts {
		names = append(names, t.name)
	}
	sort.Strings(names)
	c.Sample(map[string]interface{}{"stream": "json", "types": names})
	if c.Tier == "thorough" {
		c.LeanChecker("C18")
	}
	return c.Finish(
		"json: every message type of the six example packages (gogo, golang-v1 API, google v2; proto2 and proto3; scalars, enums, repeated, maps, oneofs, optionals, nested, well-known types) with random values (built through the runtime's own wire decoder) x random option combinations: the adapter's output is well-formed JSON, equals (as JSON) the owning runtime's own marshaler with the equivalent options, the indentation / enum-number / zero-value options have their documented effect on the text, the unmarshaling adapter and the owning runtime's own JSON decoder both accept it and return the original message, an injected unknown key is refused without and tolerated with the option, a removed required key likewise (google runtimes), nil and typed-nil messages; required: every Google-runtime type of the corpus that can reach a required field plus two hand-written schemas served by dynamicpb (a proto2 file with required fields up to three messages deep; a proto3 file importing it whose messages embed the proto2 ones as singular field, list element, map value, oneof member, directly and through further proto3 messages): the JSON text of a fully initialized random value with ONE required key removed anywhere in the tree must be refused without JSONAllowPartialMessages (and with the option set to false) and decoded to the owning runtime's AllowPartial result with it; non-trivial = non-empty message",
		append(trustedCommon, "the three runtimes' JSON codecs (protojson, golang jsonpb, gogo jsonpb) as oracles"),
		[]string{"the JSON codecs of the runtimes are assumptions (trusted, exercised); only csproto's option wiring and dispatch are modelled in Lean"})
}
