package main

// Facts about who copies decoded data (C10): decoder.go `DecodeString`, lazyproto `Decoder.Decode`
// and the package-level `lazyproto.Decode`.

import (
	"fmt"
	"go/ast"
	"go/printer"
	"go/token"
	"os"
	"strings"
)

func leanB(b bool) string {
	if b {
		return "true"
	}
	return "false"
}

// decodeStringFacts: in DecodeString the `unsafe.Pointer` conversion sits under `case DecoderModeFast`
// of a switch on d.mode and the default clause converts with `string(b)`.
func decodeStringFacts(root *pkgInfo) (unsafeOnlyFast, defaultCopies bool) {
	fd := root.methodDecl("Decoder", "DecodeString")
	if fd == nil {
		fmt.Println("missing method Decoder.DecodeString")
		os.Exit(1)
	}
	ast.Inspect(fd.Body, func(n ast.Node) bool {
		sw, ok := n.(*ast.SwitchStmt)
		if !ok || exprString(sw.Tag) != "d.mode" {
			return true
		}
		unsafeOnlyFast = true
		for _, st := range sw.Body.List {
			cc := st.(*ast.CaseClause)
			body := ""
			for _, s := range cc.Body {
				body += nodeString(s)
			}
			isFast := len(cc.List) == 1 && exprString(cc.List[0]) == "DecoderModeFast"
			if strings.Contains(body, "unsafe.") && !isFast {
				unsafeOnlyFast = false
			}
			if cc.List == nil && strings.Contains(body, "string(b)") && !strings.Contains(body, "unsafe.") {
				defaultCopies = true
			}
		}
		return false
	})
	return
}

func writeAliasFacts(root *pkgInfo, repo, outPath string) {
	var b strings.Builder
	b.WriteString("/- REGENERATED on every run by harness/cmd/extract from /repo's Go source. Do not edit. -/\n")
	b.WriteString("namespace Csproto.Generated\n\n")
	u, d := decodeStringFacts(root)
	fmt.Fprintf(&b, "/-- decoder.go DecodeString: the unsafe conversion appears only under `case DecoderModeFast` -/\ndef decodeStringUnsafeOnlyFast : Bool := %s\n", leanB(u))
	fmt.Fprintf(&b, "/-- decoder.go DecodeString: the default (safe) clause converts with `string(b)`, a copy -/\ndef decodeStringSafeCopies : Bool := %s\n\n", leanB(d))
	fmt.Printf("fact F12 DecodeString unsafe-only-under-fast=%v safe-copies=%v\n", u, d)
	// lazyproto: entry points and what they pass to the single-pass decode
	lz, err := load(repo + "/lazyproto")
	if err != nil {
		fmt.Println("parse error (lazyproto):", err)
		os.Exit(1)
	}
	methodClones, fnClones := false, false
	if fd := lz.methodDecl("Decoder", "Decode"); fd != nil {
		// if dec.mode == csproto.DecoderModeSafe { return dec.decodeWithPool(slices.Clone(data)) }
		ast.Inspect(fd.Body, func(n ast.Node) bool {
			is, ok := n.(*ast.IfStmt)
			if ok && strings.Contains(nodeString(is.Cond), "DecoderModeSafe") && strings.Contains(nodeString(is.Cond), "==") &&
				strings.Contains(nodeString(is.Body), "slices.Clone(data)") {
				methodClones = true
			}
			return true
		})
	}
	if fd := lz.funcDecl("Decode"); fd != nil {
		// the package-level function passes slices.Clone(data) unconditionally
		src := nodeString(fd.Body)
		fnClones = strings.Contains(src, ".decode(slices.Clone(data))") && !strings.Contains(src, ".decode(data)")
	}
	fmt.Fprintf(&b, "/-- lazyproto (*Decoder).Decode clones the input when the mode is DecoderModeSafe -/\ndef lazyDecoderClonesInSafeMode : Bool := %s\n", leanB(methodClones))
	fmt.Fprintf(&b, "/-- lazyproto.Decode (package level) always decodes a clone of the input -/\ndef lazyDecodeFuncClones : Bool := %s\n\n", leanB(fnClones))
	fmt.Printf("fact F12 lazyproto Decoder.Decode clones-in-safe-mode=%v, lazyproto.Decode clones=%v\n", methodClones, fnClones)
	// where a decoder's mode comes from: NewDecoder builds a new Decoder (zero mode = safe), only SetMode writes it
	fresh, fields, writers := newDecoderFacts(root)
	fmt.Fprintf(&b, "/-- decoder.go NewDecoder: the body is `return &Decoder{…}` — a newly constructed value, nothing recycled -/\ndef newDecoderIsFreshLiteral : Bool := %s\n", leanB(fresh))
	fmt.Fprintf(&b, "/-- the fields that literal sets (every other field, `mode` included, has its zero value: DecoderModeSafe) -/\ndef newDecoderLiteralFields : List String := %s\n", leanStrList(fields))
	fmt.Fprintf(&b, "/-- the functions of package csproto that assign the `mode` field of a Decoder -/\ndef decoderModeWriters : List String := %s\n\n", leanStrList(writers))
	fmt.Printf("fact F12 NewDecoder fresh-literal=%v fields=%v, mode written by %v\n", fresh, fields, writers)
	b.WriteString("end Csproto.Generated\n")
	writeIfChanged(outPath, []byte(b.String()))
}

func nodeString(n ast.Node) string {
	var sb strings.Builder
	printer.Fprint(&sb, token.NewFileSet(), n)
	return sb.String()
}

// newDecoderFacts: NewDecoder's body is the single statement `return &Decoder{k: v, …}` (fresh), the keys of
// that literal, and every function of the package that assigns to a `.mode` selector.
func newDecoderFacts(root *pkgInfo) (fresh bool, fields []string, writers []string) {
	fields, writers = []string{}, []string{}
	fd := root.funcDecl("NewDecoder")
	if fd == nil {
		fmt.Println("missing function NewDecoder")
		os.Exit(1)
	}
	if len(fd.Body.List) == 1 {
		if rs, ok := fd.Body.List[0].(*ast.ReturnStmt); ok && len(rs.Results) == 1 {
			if ue, ok := rs.Results[0].(*ast.UnaryExpr); ok && ue.Op == token.AND {
				if cl, ok := ue.X.(*ast.CompositeLit); ok && exprString(cl.Type) == "Decoder" {
					fresh = true
					for _, el := range cl.Elts {
						kv, ok := el.(*ast.KeyValueExpr)
						if !ok {
							fresh = false // positional literal: which field gets what is not visible here
							continue
						}
						fields = append(fields, exprString(kv.Key))
					}
				}
			}
		}
	}
	for _, f := range root.files {
		for _, d := range f.Decls {
			fn, ok := d.(*ast.FuncDecl)
			if !ok || fn.Body == nil {
				continue
			}
			writes := false
			ast.Inspect(fn.Body, func(n ast.Node) bool {
				switch x := n.(type) {
				case *ast.AssignStmt:
					for _, l := range x.Lhs {
						if sel, ok := l.(*ast.SelectorExpr); ok && sel.Sel.Name == "mode" {
							writes = true
						}
					}
				case *ast.CompositeLit:
					// a Decoder literal that sets mode explicitly
					if exprString(x.Type) == "Decoder" {
						for _, el := range x.Elts {
							if kv, ok := el.(*ast.KeyValueExpr); ok && exprString(kv.Key) == "mode" {
								writes = true
							}
						}
					}
				}
				return true
			})
			if writes {
				writers = append(writers, fn.Name.Name)
			}
		}
	}
	return
}
