package main

// Facts about who copies decoded data (C10): decoder.go `DecodeString`, lazyproto `Decoder.Decode`
// and the package-level `lazyproto.Decode`.

import (
	"fmt"
	"go/ast"
	"go/printer"
	"go/token"
	"os"
	"strings"
)

func leanB(b bool) string {
	if b {
		return "true"
	}
	return "false"
}

// decodeStringFacts: in DecodeString the `unsafe.Pointer` conversion sits under `case DecoderModeFast`
// of a switch on d.mode and the default clause converts with `string(b)`.
func decodeStringFacts(root *pkgInfo) (unsafeOnlyFast, defaultCopies bool) {
	fd := root.methodDecl("Decoder", "DecodeString")
	if fd == nil {
		fmt.Println("missing method Decoder.DecodeString")
		os.Exit(1)
	}
	ast.Inspect(fd.Body, func(n ast.Node) bool {
		sw, ok := n.(*ast.SwitchStmt)
		if !ok || exprString(sw.Tag) != "d.mode" {
			return true
		}
		unsafeOnlyFast = true
		for _, st := range sw.Body.List {
			cc := st.(*ast.CaseClause)
			body := ""
			for _, s := range cc.Body {
				body += nodeString(s)
			}
			isFast := len(cc.List) == 1 && exprString(cc.List[0]) == "DecoderModeFast"
			if strings.Contains(body, "unsafe.") && !isFast {
				unsafeOnlyFast = false
			}
			if cc.List == nil && strings.Contains(body, "string(b)") && !strings.Contains(body, "unsafe.") {
				defaultCopies = true
			}
		}
		return false
	})
	return
}

func writeAliasFacts(root *pkgInfo, repo, outPath string) {
	var b strings.Builder
	b.WriteString("/- REGENERATED on every run by harness/cmd/extract from /repo's Go source. Do not edit. -/\n")
	b.WriteString("namespace Csproto.Generated\n\n")
	u, d := decodeStringFacts(root)
	fmt.Fprintf(&b, "/-- decoder.go DecodeString: the unsafe conversion appears only under `case DecoderModeFast` -/\ndef decodeStringUnsafeOnlyFast : Bool := %s\n", leanB(u))
	fmt.Fprintf(&b, "/-- decoder.go DecodeString: the default (safe) clause converts with `string(b)`, a copy -/\ndef decodeStringSafeCopies : Bool := %s\n\n", leanB(d))
	fmt.Printf("fact F12 DecodeString unsafe-only-under-fast=%v safe-copies=%v\n", u, d)
	// lazyproto: entry points and what they pass to the single-pass decode
	lz, err := load(repo + "/lazyproto")
	if err != nil {
		fmt.Println("parse error (lazyproto):", err)
		os.Exit(1)
	}
	methodClones, fnClones := false, false
	if fd := lz.methodDecl("Decoder", "Decode"); fd != nil {
		// if dec.mode == csproto.DecoderModeSafe { return dec.decodeWithPool(slices.Clone(data)) }
		ast.Inspect(fd.Body, func(n ast.Node) bool {
			is, ok := n.(*ast.IfStmt)
			if ok && strings.Contains(nodeString(is.Cond), "DecoderModeSafe") && strings.Contains(nodeString(is.Cond), "==") &&
				strings.Contains(nodeString(is.Body), "slices.Clone(data)") {
				methodClones = true
			}
			return true
		})
	}
	if fd := lz.funcDecl("Decode"); fd != nil {
		// the package-level function passes slices.Clone(data) unconditionally
		src := nodeString(fd.Body)
		fnClones = strings.Contains(src, ".decode(slices.Clone(data))") && !strings.Contains(src, ".decode(data)")
	}
	fmt.Fprintf(&b, "/-- lazyproto (*Decoder).Decode clones the input when the mode is DecoderModeSafe -/\ndef lazyDecoderClonesInSafeMode : Bool := %s\n", leanB(methodClones))
	fmt.Fprintf(&b, "/-- lazyproto.Decode (package level) always decodes a clone of the input -/\ndef lazyDecodeFuncClones : Bool := %s\n\n", leanB(fnClones))
	fmt.Printf("fact F12 lazyproto Decoder.Decode clones-in-safe-mode=%v, lazyproto.Decode clones=%v\n", methodClones, fnClones)
	b.WriteString("end Csproto.Generated\n")
	writeIfChanged(outPath, []byte(b.String()))
}

func nodeString(n ast.Node) string {
	var sb strings.Builder
	printer.Fprint(&sb, token.NewFileSet(), n)
	return sb.String()
}
