package main

// Facts about the code templates of protoc-gen-fastmarshal (text-level: the templates are Go
// text/template sources, the generated Go code is checked separately by the corpus pipeline).

import (
	"fmt"
	"go/ast"
	"go/parser"
	"go/token"
	"go/types"
	"os"
	"path/filepath"
	"regexp"
	"strconv"
	"strings"
)

var reDefine = regexp.MustCompile(`\{\{-?\s*define\s+"([A-Za-z]+)"\s*-?\}\}`)
var reKindEq = regexp.MustCompile(`eq\s+\$kind((?:\s+"[a-z0-9]+")+)`)
var reQuoted = regexp.MustCompile(`"([a-z0-9]+)"`)

// defines splits a template file into its `define` blocks (name -> body).
func defines(src string) (map[string]string, []string) {
	idx := reDefine.FindAllStringSubmatchIndex(src, -1)
	out := map[string]string{}
	var order []string
	for i, m := range idx {
		name := src[m[2]:m[3]]
		end := len(src)
		if i+1 < len(idx) {
			end = idx[i+1][0]
		}
		out[name] = src[m[1]:end]
		order = append(order, name)
	}
	return out, order
}

func kindsIn(body string) []string {
	var out []string
	for _, m := range reKindEq.FindAllStringSubmatch(body, -1) {
		for _, q := range reQuoted.FindAllStringSubmatch(m[1], -1) {
			out = append(out, q[1])
		}
	}
	return out
}

func leanBool(b bool) string {
	if b {
		return "true"
	}
	return "false"
}

func writeTemplateFacts(repo, outPath string) {
	dir := filepath.Join(repo, "cmd", "protoc-gen-fastmarshal", "templates")
	read := func(name string) string {
		b, err := os.ReadFile(filepath.Join(dir, name))
		if err != nil {
			fmt.Println("missing template", name)
			os.Exit(1)
		}
		return string(b)
	}
	snip := read("fieldsnippets.tmpl")
	defs, order := defines(snip)
	var b strings.Builder
	b.WriteString("/- REGENERATED on every run by harness/cmd/extract from /repo's templates. Do not edit. -/\n")
	b.WriteString("namespace Csproto.Generated\n\n")
	for _, d := range []struct{ def, lean, doc string }{
		{"SizeOfField", "sizeDispatchKinds", "kinds routed by the independent `if`s of `SizeOfField`"},
		{"MarshalField", "marshalDispatchKinds", "kinds routed by `MarshalField`"},
		{"UnmarshalField", "unmarshalDispatchKinds", "kinds routed by `UnmarshalField`"},
		{"SizeOfOneOf", "sizeOneofKinds", "kinds with an arm in the if/else chain of `SizeOfOneOf`"},
		{"MarshalOneOf", "marshalOneofKinds", "kinds with an arm in `MarshalOneOf`"},
		{"UnmarshalOneOf", "unmarshalOneofKinds", "kinds with an arm in `UnmarshalOneOf`"},
		{"UnmarshalNumber", "unmarshalNumberKinds", "kinds with an arm in the if/else chain of `UnmarshalNumber`"},
		{"SizeOfExtension", "sizeExtensionKinds", "kinds with an arm in `SizeOfExtension` (singular and repeated chains)"},
		{"MarshalExtension", "marshalExtensionKinds", "kinds with an arm in `MarshalExtension` (singular and repeated chains)"},
		{"UnmarshalExtension", "unmarshalExtensionKinds", "kinds with an arm in `UnmarshalExtension` (singular)"},
		{"UnmarshalRepeatedExtension", "unmarshalRepeatedExtensionKinds", "kinds with an arm in `UnmarshalRepeatedExtension`"},
	} {
		body, ok := defs[d.def]
		if !ok {
			fmt.Println("template define not found:", d.def)
			os.Exit(1)
		}
		ks := kindsIn(body)
		fmt.Fprintf(&b, "/-- %s -/\ndef %s : List String := %s\n\n", d.doc, d.lean, leanStrList(ks))
		fmt.Printf("fact F11 %s = %v\n", d.lean, ks)
	}
	// the three extension snippets branch on the cardinality: a repeated extension holds a slice (finding B32)
	var repArms []string
	for _, name := range []string{"SizeOfExtension", "MarshalExtension", "UnmarshalExtension"} {
		body := defs[name]
		has := strings.Contains(body, `eq (.Field.Desc.Cardinality | string) "repeated"`)
		loops := strings.Contains(body, "range extVals") || strings.Contains(body, `template "UnmarshalRepeatedExtension"`)
		repArms = append(repArms, fmt.Sprintf("(%q, %s)", name, leanBool(has && loops)))
	}
	rep := defs["UnmarshalRepeatedExtension"]
	appends := strings.Contains(rep, "csproto.GetExtension(m, E_") && strings.Contains(rep, "extVals = append(extVals,") && strings.Contains(rep, "csproto.SetExtension(m, E_") && strings.Contains(rep, "case csproto.WireTypeLengthDelimited:")
	fmt.Fprintf(&b, "/-- (extension snippet, it has an arm of its own for a repeated extension that walks / appends to the slice) -/\ndef extensionRepeatedArms : List (String × Bool) := [%s]\n\n", strings.Join(repArms, ", "))
	fmt.Fprintf(&b, "/-- `UnmarshalRepeatedExtension` loads the list held so far, appends (one value or a packed run) and stores it back -/\ndef repeatedExtensionAppends : Bool := %s\n\n", leanBool(appends))
	// EncodeNested call sites: is the returned error looked at?
	var sites []string
	reNested := regexp.MustCompile(`(?m)^(.*)enc\.EncodeNested\(`)
	for _, name := range order {
		for _, m := range reNested.FindAllStringSubmatch(defs[name], -1) {
			checked := strings.Contains(m[1], "err = ") || strings.Contains(m[1], "err := ")
			sites = append(sites, fmt.Sprintf("(%q, %s)", name, leanBool(checked)))
		}
	}
	fmt.Fprintf(&b, "/-- every `enc.EncodeNested(` call site: (define, its error is assigned and tested) -/\ndef encodeNestedSites : List (String × Bool) := [%s]\n\n", strings.Join(sites, ", "))
	fmt.Printf("fact F14 %d EncodeNested call sites\n", len(sites))
	// DecodeBytes call sites: copied in safe mode, or only fed to a sub-decoder
	var dsites []string
	lines := strings.Split(snip, "\n")
	cur := ""
	for i, l := range lines {
		if m := reDefine.FindStringSubmatch(l); m != nil {
			cur = m[1]
		}
		if !strings.Contains(l, "DecodeBytes()") && !strings.Contains(l, `$dec = "DecodeBytes"`) {
			continue
		}
		kind := "aliased"
		window := strings.Join(lines[i:min(i+12, len(lines))], "\n")
		switch {
		case strings.Contains(l, "entryData"):
			kind = "subdecoder"
		case strings.Contains(l, `$dec = "DecodeBytes"`):
			// the extension snippet decodes further down; the guard is keyed on the kind
			rest := strings.Join(lines[i:min(i+40, len(lines))], "\n")
			if strings.Contains(rest, `eq $kind "bytes"`) && strings.Contains(rest, "DecoderModeSafe") {
				kind = "copied"
			}
		case strings.Contains(window, "DecoderModeSafe") && strings.Contains(window, "append([]byte{}"):
			kind = "copied"
		}
		dsites = append(dsites, fmt.Sprintf("(%q, %q)", cur, kind))
	}
	fmt.Fprintf(&b, "/-- every `DecodeBytes` use of the snippets: (define, copied | subdecoder | aliased) -/\ndef decodeBytesSites : List (String × String) := [%s]\n\n", strings.Join(dsites, ", "))
	fmt.Printf("fact F12 %d DecodeBytes sites\n", len(dsites))
	// per file template
	var unk, req, resets, mrets []string
	mentions := 0
	for _, f := range []string{"singlefile.go.tmpl", "permessage.go.tmpl"} {
		src := read(f)
		mentions += strings.Count(src, "sizeCache") + strings.Count(src, "XXX_sizecache") + strings.Count(src, "sync/atomic")
		sizeIdx := strings.Index(src, ") Size() int {")
		marshalToIdx := strings.Index(src, "MarshalTo(dest []byte) error {")
		unmarshalIdx := strings.Index(src, "Unmarshal(p []byte) error {")
		marshalIdx := strings.Index(src, ") Marshal() ([]byte, error) {")
		if sizeIdx < 0 || marshalToIdx < 0 || unmarshalIdx < 0 || marshalIdx < 0 || !(sizeIdx < marshalIdx && marshalIdx < marshalToIdx && marshalToIdx < unmarshalIdx) {
			fmt.Println("template", f, ": method skeleton not recognised")
			os.Exit(1)
		}
		sizeBody, marshalBody, marshalToBody, unmarshalBody := src[sizeIdx:marshalIdx], src[marshalIdx:marshalToIdx], src[marshalToIdx:unmarshalIdx], src[unmarshalIdx:]
		sized := strings.Contains(sizeBody, "sz += len(m.unknownFields)") && strings.Contains(sizeBody, "sz += len(m.XXX_unrecognized)")
		written := strings.Contains(marshalToBody, "enc.EncodeRaw(m.unknownFields)") && strings.Contains(marshalToBody, "enc.EncodeRaw(m.XXX_unrecognized)")
		kept := strings.Contains(unmarshalBody, "m.unknownFields = append(m.unknownFields, skipped...)") && strings.Contains(unmarshalBody, "m.XXX_unrecognized = append(m.XXX_unrecognized, skipped...)")
		unk = append(unk, fmt.Sprintf("(%q, %s, %s, %s)", f, leanBool(sized), leanBool(written), leanBool(kept)))
		// what Marshal() hands out: every `return` of its body, and whether the buffer it fills is allocated there
		var rets []string
		for _, m := range regexp.MustCompile(`(?m)^\s*return\s+(.*?)\s*$`).FindAllStringSubmatch(marshalBody, -1) {
			rets = append(rets, strings.Join(strings.Fields(m[1]), " "))
		}
		fresh := strings.Contains(marshalBody, "buf := make([]byte, siz)") && strings.Contains(marshalBody, "m.MarshalTo(buf)") &&
			strings.Count(marshalBody, "buf =") == 0 && strings.Count(marshalBody, "buf :=") == 1
		mrets = append(mrets, fmt.Sprintf("(%q, %s, %s)", f, leanBool(fresh), leanStrList(rets)))
		first := strings.TrimSpace(strings.SplitN(unmarshalBody[strings.Index(unmarshalBody, "{")+1:], "\n", 3)[1])
		resets = append(resets, fmt.Sprintf("(%q, %s)", f, leanBool(first == "m.Reset()")))
		guard := regexp.MustCompile(`\{\{-? if not \(hasRequiredFields [^)]*\) \}\}\s*if (siz == 0|len\(p\) == 0) \{`)
		mg := guard.MatchString(marshalBody) || !strings.Contains(marshalBody, "siz == 0")
		ug := guard.MatchString(unmarshalBody) || !strings.Contains(unmarshalBody, "len(p) == 0")
		check := strings.Contains(unmarshalBody, "csprotoCheckRequiredFields(); err != nil")
		req = append(req, fmt.Sprintf("(%q, %s, %s, %s)", f, leanBool(mg), leanBool(ug), leanBool(check)))
	}
	// the order in which extensions are sized / written is the template's: `range getExtensions` over the
	// per-extension snippet in both methods, and nothing in any template enumerates what the RUNTIME holds
	// (RangeExtensions / ExtensionDescs walk a Go map: an order that changes from call to call)
	var extLoops, decSetup []string
	runtimeOrdered := 0
	for _, f := range []string{"fieldsnippets.tmpl", "singlefile.go.tmpl", "permessage.go.tmpl"} {
		src := read(f)
		runtimeOrdered += strings.Count(src, "RangeExtensions") + strings.Count(src, "ExtensionDescs")
	}
	reSizeLoop := regexp.MustCompile(`\{\{-?\s*range getExtensions [^}]*\}\}\s*\{\{-?\s*template "SizeOfExtension" `)
	reMarshalLoop := regexp.MustCompile(`\{\{-?\s*range getExtensions [^}]*\}\}\s*\{\{-?\s*template "MarshalExtension" `)
	reUnsafeSetMode := regexp.MustCompile(`\{\{-?\s*if \$useUnsafeDecoder\s*-?\}\}\s*(//[^\n]*\n\s*)*dec\.SetMode\(csproto\.DecoderModeFast\)`)
	for _, f := range []string{"singlefile.go.tmpl", "permessage.go.tmpl"} {
		src := read(f)
		sizeIdx, marshalIdx := strings.Index(src, ") Size() int {"), strings.Index(src, ") Marshal() ([]byte, error) {")
		marshalToIdx, unmarshalIdx := strings.Index(src, "MarshalTo(dest []byte) error {"), strings.Index(src, "Unmarshal(p []byte) error {")
		if sizeIdx < 0 || marshalIdx < sizeIdx || marshalToIdx < marshalIdx || unmarshalIdx < marshalToIdx {
			continue // (reported below)
		}
		extLoops = append(extLoops, fmt.Sprintf("(%q, %s, %s)", f, leanBool(reSizeLoop.MatchString(src[sizeIdx:marshalIdx])), leanBool(reMarshalLoop.MatchString(src[marshalToIdx:unmarshalIdx]))))
		ub := src[unmarshalIdx:]
		newDec := strings.Count(ub, "dec := csproto.NewDecoder(p)") == 1 && strings.Count(ub, "NewDecoder(") == 1
		onlyOpt := strings.Count(src, "SetMode(") == len(reUnsafeSetMode.FindAllString(src, -1))
		decSetup = append(decSetup, fmt.Sprintf("(%q, %s, %s)", f, leanBool(newDec), leanBool(onlyOpt)))
	}
	fmt.Fprintf(&b, "/-- (template, Size() sizes the extensions by `range getExtensions` over `SizeOfExtension`, MarshalTo writes them by `range getExtensions` over `MarshalExtension`): declaration order, fixed at generation time -/\ndef extensionLoops : List (String × Bool × Bool) := [%s]\n\n", strings.Join(extLoops, ", "))
	fmt.Fprintf(&b, "/-- mentions, in the three templates, of the runtime calls that enumerate populated extensions in Go-map order (RangeExtensions, ExtensionDescs) -/\ndef runtimeOrderedIteration : Nat := %d\n\n", runtimeOrdered)
	fmt.Fprintf(&b, "/-- (template, Unmarshal gets its decoder from exactly one `csproto.NewDecoder(p)`, every `SetMode(` of the template is `dec.SetMode(csproto.DecoderModeFast)` under `{{if $useUnsafeDecoder}}`) -/\ndef decoderSetup : List (String × Bool × Bool) := [%s]\n\n", strings.Join(decSetup, ", "))
	fmt.Printf("fact F17 extension loops %v, runtime-ordered iteration mentions = %d\nfact F12 decoder set-up %v\n", extLoops, runtimeOrdered, decSetup)
	fmt.Fprintf(&b, "/-- mentions of the runtime's size-cache fields / sync/atomic in the two file templates -/\ndef sizeCacheMentions : Nat := %d\n\n", mentions)
	fmt.Fprintf(&b, "/-- (template, Size counts the unknown fields, MarshalTo writes them, Unmarshal keeps them) -/\ndef unknownHandling : List (String × Bool × Bool × Bool) := [%s]\n\n", strings.Join(unk, ", "))
	fmt.Fprintf(&b, "/-- (template, the `siz == 0` shortcut of Marshal is only taken without required fields, likewise the `len(p) == 0` shortcut of Unmarshal, Unmarshal runs the required-field check) -/\ndef requiredGuards : List (String × Bool × Bool × Bool) := [%s]\n\n", strings.Join(req, ", "))
	fmt.Fprintf(&b, "/-- (template, Marshal() fills a buffer it allocates itself with `make([]byte, siz)` and never re-assigns it, the operands of every `return` of Marshal()) -/\ndef marshalReturns : List (String × Bool × List String) := [%s]\n\n", strings.Join(mrets, ", "))
	fmt.Printf("fact F17 Marshal() returns %v\n", mrets)
	// the hand-written package the generated Unmarshal calls into while it collects unknown fields (csproto.SetExtension in the
	// extension arms, the Decoder): does any of it touch a message's unknown-field storage?
	touches := 0
	if ents, err := os.ReadDir(repo); err == nil {
		for _, e := range ents {
			if e.IsDir() || !strings.HasSuffix(e.Name(), ".go") || strings.HasSuffix(e.Name(), "_test.go") {
				continue
			}
			src, _ := os.ReadFile(filepath.Join(repo, e.Name()))
			for _, w := range []string{"SetUnknown(", "XXX_unrecognized", "unknownFields", "protoimpl.UnknownFields"} {
				touches += strings.Count(string(src), w)
			}
		}
	}
	fmt.Fprintf(&b, "/-- mentions of a message's unknown-field storage (`SetUnknown(`, `XXX_unrecognized`, `unknownFields`) in the non-test Go files of the root package -/\ndef shimUnknownStoreMentions : Nat := %d\n\n", touches)
	fmt.Printf("fact F18 unknown-field storage mentions in the root package = %d\n", touches)
	fmt.Fprintf(&b, "/-- (template, the first statement of the generated Unmarshal is `m.Reset()`) -/\ndef unmarshalResetsFirst : List (String × Bool) := [%s]\n\n", strings.Join(resets, ", "))
	fmt.Printf("fact F15 Unmarshal resets first %v\n", resets)
	fmt.Printf("fact F10 size-cache mentions = %d\nfact F13 unknown handling %v\nfact F14 required guards %v\n", mentions, unk, req)
	// output file names: the string literals of run.go that end in .pb.fm.go
	runSrc, err := os.ReadFile(filepath.Join(repo, "cmd", "protoc-gen-fastmarshal", "run.go"))
	if err != nil {
		fmt.Println("missing run.go")
		os.Exit(1)
	}
	var lits []string
	for _, m := range regexp.MustCompile("`([^`]*\\.pb\\.fm\\.go)`").FindAllStringSubmatch(string(runSrc), -1) {
		lits = append(lits, m[1])
	}
	fmt.Fprintf(&b, "/-- the output-name suffixes of run.go (single file, file per message) -/\ndef nameSuffixes : List String := %s\n\n", leanStrList(lits))
	fmt.Printf("fact F16 output name suffixes %v\n", lits)
	// state kept between the files of one request: package-level variables of the plug-in that a function writes to
	globals, err := packageGlobalsWritten(filepath.Join(repo, "cmd", "protoc-gen-fastmarshal"))
	if err != nil {
		fmt.Println("cannot parse cmd/protoc-gen-fastmarshal:", err)
		os.Exit(1)
	}
	fmt.Fprintf(&b, "/-- the package-level variables of cmd/protoc-gen-fastmarshal (non-test files) that some function body writes to:\n    assignment to the variable or to an element / field of it, increment or decrement, delete or clear, its address taken, a\n    receiver-modifying method (Store, Lock, Do, …) called on it -/\ndef generatorGlobalsWritten : List String := %s\n\n", leanStrList(globals))
	fmt.Printf("fact F19 plug-in package-level variables written by functions %v\n", globals)
	// the generator's options: every `<flag set>.<Kind>Var(&target, "<name>", …)` / `<flag set>.Var(&target, "<name>", …)`
	// call in the non-test Go files of the plug-in, in source order (files in name order)
	genDir := filepath.Join(repo, "cmd", "protoc-gen-fastmarshal")
	var opts []string
	reserved := 0
	if ents, err := os.ReadDir(genDir); err == nil {
		fset := token.NewFileSet()
		for _, e := range ents {
			if e.IsDir() || !strings.HasSuffix(e.Name(), ".go") || strings.HasSuffix(e.Name(), "_test.go") {
				continue
			}
			src, _ := os.ReadFile(filepath.Join(genDir, e.Name()))
			reserved += strings.Count(string(src), "Reserved")
			f, err := parser.ParseFile(fset, e.Name(), src, 0)
			if err != nil {
				fmt.Println("cannot parse", e.Name(), err)
				os.Exit(1)
			}
			ast.Inspect(f, func(n ast.Node) bool {
				ce, ok := n.(*ast.CallExpr)
				if !ok {
					return true
				}
				sel, ok := ce.Fun.(*ast.SelectorExpr)
				if !ok || !strings.HasSuffix(sel.Sel.Name, "Var") || len(ce.Args) < 3 {
					return true
				}
				if _, ok := ce.Args[0].(*ast.UnaryExpr); !ok {
					return true
				}
				lit, ok := ce.Args[1].(*ast.BasicLit)
				if !ok || lit.Kind != token.STRING {
					return true
				}
				name, _ := strconv.Unquote(lit.Value)
				kind := strings.ToLower(strings.TrimSuffix(sel.Sel.Name, "Var"))
				if kind == "" {
					kind = "value" // flag.Value implementation
				}
				opts = append(opts, fmt.Sprintf("(%q, %q)", name, kind))
				return true
			})
		}
	}
	// how the value options (flag.Value implementations, `flags.Var(&x.field, "name", …)`) keep what they are given:
	// (option, Go type of the target field, the type's underlying type as written in its declaration)
	var stores []string
	if ents, err := os.ReadDir(genDir); err == nil {
		fset := token.NewFileSet()
		typeDecl := map[string]string{}  // declared type -> underlying type expression
		fieldType := map[string]string{} // struct field name -> type expression
		type varCall struct{ field, name string }
		var calls []varCall
		for _, e := range ents {
			if e.IsDir() || !strings.HasSuffix(e.Name(), ".go") || strings.HasSuffix(e.Name(), "_test.go") {
				continue
			}
			f, err := parser.ParseFile(fset, filepath.Join(genDir, e.Name()), nil, 0)
			if err != nil {
				continue
			}
			ast.Inspect(f, func(n ast.Node) bool {
				switch x := n.(type) {
				case *ast.TypeSpec:
					typeDecl[x.Name.Name] = types.ExprString(x.Type)
					if st, ok := x.Type.(*ast.StructType); ok {
						for _, fl := range st.Fields.List {
							for _, nm := range fl.Names {
								fieldType[nm.Name] = types.ExprString(fl.Type)
							}
						}
					}
				case *ast.CallExpr:
					sel, ok := x.Fun.(*ast.SelectorExpr)
					if !ok || sel.Sel.Name != "Var" || len(x.Args) != 3 {
						return true
					}
					lit, ok := x.Args[1].(*ast.BasicLit)
					if !ok || lit.Kind != token.STRING {
						return true
					}
					name, _ := strconv.Unquote(lit.Value)
					field := ""
					if u, ok := x.Args[0].(*ast.UnaryExpr); ok {
						switch t := u.X.(type) {
						case *ast.SelectorExpr:
							field = t.Sel.Name
						case *ast.Ident:
							field = t.Name
						}
					}
					calls = append(calls, varCall{field, name})
				}
				return true
			})
		}
		for _, c := range calls {
			t := fieldType[c.field]
			stores = append(stores, fmt.Sprintf("(%q, %q, %q)", c.name, t, typeDecl[t]))
		}
	}
	for _, n := range []string{"singlefile.go.tmpl", "permessage.go.tmpl", "fieldsnippets.tmpl"} {
		reserved += strings.Count(read(n), "Reserved") + strings.Count(read(n), "reserved")
	}
	fmt.Fprintf(&b, "/-- the options of the generator: (name, kind) of every `flags.<Kind>Var(&target, \"name\", …)` call in the non-test Go files of cmd/protoc-gen-fastmarshal (kind `value`: a flag.Value implementation) -/\ndef generatorOptions : List (String × String) := [%s]\n\n", strings.Join(opts, ", "))
	fmt.Fprintf(&b, "/-- how the value options of the generator (`flags.Var(&x.field, \"name\", …)`, a flag.Value whose Set runs once per `name=value` token) keep what they are given: (option, Go type of the target field, the underlying type in that type's declaration) -/\ndef generatorValueOptionStores : List (String × String × String) := [%s]\n\n", strings.Join(stores, ", "))
	fmt.Printf("fact F23 value option stores %v\n", stores)
	fmt.Fprintf(&b, "/-- mentions of `Reserved` (descriptor accessors ReservedRanges / ReservedNames) in the non-test Go files of the generator and of `reserved` in its three templates -/\ndef reservedMentions : Nat := %d\n\n", reserved)
	fmt.Printf("fact F21 generator options %v\nfact F22 mentions of reserved declarations in the generator = %d\n", opts, reserved)
	b.WriteString("end Csproto.Generated\n")
	writeIfChanged(outPath, []byte(b.String()))
}
