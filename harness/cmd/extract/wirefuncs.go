package main

// Translator for the wire primitives: the BODIES of EncodeVarint, DecodeVarint, DecodeFixed32 and DecodeFixed64
// (go/ast + go/types of /repo's current tree) are translated statement by statement into Lean definitions over the
// combinators of lean/Csproto/Model/GoSem.lean (Generated/WireFuncs.lean).  Bridge/WireFuncs.lean proves the
// translated functions equal to the hand-written model of Model/Wire.lean for every input, so a change to one of
// these Go functions changes a Lean definition a theorem is about.
//
// Supported fragment: integer / []byte / error locals, assignment, op-assignment, ++/--, indexed load and store
// (bounds-checked), len, p[:k], if/else, for (condition-only and three-clause) with return from inside, integer
// conversions, comparisons, && || !.  Anything else aborts the translation: the check then reports the broken
// obligation instead of silently keeping an old model.

import (
	"fmt"
	"go/ast"
	"go/token"
	"go/types"
	"os"
	"strings"
)

type svar struct {
	name string
	lean string // Lean type
	zero string
	kind string // int | bytes | err
	w    int
}

// fsig is what a caller needs to know about an already translated function
type fsig struct {
	params []svar          // in order
	res    []svar          // result tuple
	writes map[string]bool // []byte parameters the body stores into (the caller's slice shares the backing array)
	reslices map[string]bool // []byte parameters the body re-assigns (then its final value is not the caller's slice)
}

var translated = map[string]*fsig{}

// functions whose bodies are emitted one definition per top-level statement
var splitBodies = map[string]bool{"Decoder.Skip": true}

type ftr struct {
	p      *pkgInfo
	x      *xlate
	fn     string
	vars   []*svar
	byName map[string]*svar
	res    []svar // result tuple
	loops  []string
	nloop  int
	errs   []string
	// bounds checks of []byte expressions met while translating the values of the current statement
	pendingGuards []string
	objs          map[string]types.Object
}

func (t *ftr) fail(n ast.Node, why string) string {
	t.errs = append(t.errs, fmt.Sprintf("%s: %s", t.p.fset.Position(n.Pos()), why))
	return "sorryUnsupported"
}

// noteObj refuses a `:=` that SHADOWS a variable of an enclosing scope (the translation keeps one state variable per
// name); re-declaring a name in a sibling scope is harmless, the earlier variable can no longer be read
func (t *ftr) noteObj(id *ast.Ident) {
	obj := t.p.info.Defs[id]
	if obj == nil || id.Name == "_" {
		return
	}
	if t.objs == nil {
		t.objs = map[string]types.Object{}
	}
	if old, ok := t.objs[id.Name]; ok && old != obj && old.Parent() != nil && old.Parent().Contains(id.Pos()) {
		// shadowing: the inner variable gets a state variable of its own
		if t.x.objName == nil {
			t.x.objName = map[types.Object]string{}
		}
		for k := 1; ; k++ {
			cand := fmt.Sprintf("%s_%d", id.Name, k)
			if _, used := t.byName[cand]; !used {
				t.x.objName[obj] = cand
				break
			}
		}
		return // the outer variable stays the one later sibling scopes may shadow again
	}
	t.objs[id.Name] = obj
}

func (t *ftr) declare(name string, ty types.Type, n ast.Node) {
	if name == "_" {
		return
	}
	if old, ok := t.byName[name]; ok {
		if it, isInt := intType(ty); (isInt && (old.kind != "int" || old.w != it.w)) || (!isInt && old.kind == "int") {
			t.fail(n, "variable "+name+" is declared twice with different types")
		}
		return
	}
	v := svar{name: name}
	if it, ok := intType(ty); ok {
		v.kind, v.w, v.lean, v.zero = "int", it.w, fmt.Sprintf("BitVec %d", it.w), fmt.Sprintf("0#%d", it.w)
	} else if sl, ok := ty.Underlying().(*types.Slice); ok {
		if b, ok := sl.Elem().Underlying().(*types.Basic); ok && b.Kind() == types.Uint8 {
			v.kind, v.lean, v.zero = "bytes", "Bytes", "[]"
		}
	} else if ty.String() == "error" {
		v.kind, v.lean, v.zero = "err", "Go.Err", "Go.Err.nil"
	} else if b, ok := ty.Underlying().(*types.Basic); ok && b.Kind() == types.Bool {
		v.kind, v.lean, v.zero = "bool", "Bool", "false"
	}
	if sl, ok := ty.Underlying().(*types.Slice); ok && v.kind == "" {
		if it, ok := intType(sl.Elem()); ok { // []uint64, []int32, …: a list of fixed-width integers
			v.kind, v.w, v.lean, v.zero = "ints", it.w, fmt.Sprintf("List (BitVec %d)", it.w), "[]"
		} else if b, ok := sl.Elem().Underlying().(*types.Basic); ok && b.Kind() == types.Bool {
			v.kind, v.lean, v.zero = "bools", "List Bool", "[]"
		}
	}
	if v.kind == "" {
		t.fail(n, "unsupported variable type "+ty.String()+" for "+name)
		return
	}
	vp := new(svar)
	*vp = v
	t.vars = append(t.vars, vp)
	t.byName[name] = vp
}

// guards collects the bounds checks an expression needs (every index expression inside it)
func (t *ftr) guards(e ast.Node) []string {
	var gs []string
	ast.Inspect(e, func(n ast.Node) bool {
		if ix, ok := n.(*ast.IndexExpr); ok {
			if sn := t.x.stateName(ix.X); sn != "" {
				gs = append(gs, fmt.Sprintf("(%s).toNat < s.%s.length", t.x.expr(ix.Index), sn))
			}
		}
		if se, ok := n.(*ast.SliceExpr); ok && se.Low != nil && se.High == nil {
			if sn := t.x.stateName(se.X); sn != "" {
				gs = append(gs, fmt.Sprintf("(%s).toNat ≤ s.%s.length", t.x.exprAs(se.Low, ityp{64, true}), sn))
			}
		}
		return true
	})
	return gs
}

func guardExpr(gs []string) string {
	if len(gs) == 0 {
		return ""
	}
	return "(" + strings.Join(gs, " ∧ ") + ")"
}

func withGuards(gs []string, body string) string {
	if len(gs) == 0 {
		return body
	}
	return fmt.Sprintf("if %s then %s else .panic", guardExpr(gs), body)
}

func (t *ftr) errExpr(e ast.Expr) string {
	switch e := e.(type) {
	case *ast.Ident:
		switch e.Name {
		case "nil":
			return "Go.Err.nil"
		case "ErrInvalidVarintData":
			return "Go.Err.invalidVarint"
		case "ErrValueOverflow":
			return "Go.Err.overflow"
		}
		if v, ok := t.byName[t.x.identName(e)]; ok && v.kind == "err" {
			return "s." + t.x.identName(e)
		}
		if strings.HasPrefix(e.Name, "Err") && t.isErr(e) { // any other package-level sentinel
			return fmt.Sprintf("(Go.Err.other %q)", e.Name)
		}
	case *ast.CallExpr:
		// fmt.Errorf("… %w …", …, err) keeps the class of the wrapped error (errors.Is); without %w it is a new error
		if sel, ok := e.Fun.(*ast.SelectorExpr); ok && sel.Sel.Name == "Errorf" && len(e.Args) > 0 {
			if id, ok := sel.X.(*ast.Ident); ok && id.Name == "fmt" {
				if lit, ok := e.Args[0].(*ast.BasicLit); ok {
					if strings.Count(lit.Value, "%w") == 1 {
						for _, a := range e.Args[1:] {
							if t.isErr(a) {
								return t.errExpr(a)
							}
						}
					} else if !strings.Contains(lit.Value, "%w") {
						return "(Go.Err.other \"errorf\")"
					}
				}
			}
		}
	case *ast.SelectorExpr:
		if id, ok := e.X.(*ast.Ident); ok && id.Name == "io" && e.Sel.Name == "ErrUnexpectedEOF" {
			return "Go.Err.unexpectedEOF"
		}
	case *ast.UnaryExpr: // &SomeError{…}: a fresh error value of that type
		if cl, ok := e.X.(*ast.CompositeLit); ok && e.Op == token.AND {
			if id, ok := cl.Type.(*ast.Ident); ok {
				return fmt.Sprintf("(Go.Err.other %q)", id.Name)
			}
		}
	}
	return t.fail(e, "unsupported error expression")
}

func (t *ftr) isErr(e ast.Expr) bool {
	tv, ok := t.p.info.Types[e]
	return ok && tv.Type != nil && tv.Type.String() == "error"
}

// call translates a call of an already translated function: the Lean term `F fuel a1 a2 …` and the write-backs
// (`dest := c.dest` for every []byte argument the callee stores into — caller and callee share the backing array).
func (t *ftr) call(ce *ast.CallExpr) (term string, sig *fsig, back []string, gs []string, ok bool) {
	id, isId := ce.Fun.(*ast.Ident)
	if !isId {
		return "", nil, nil, nil, false
	}
	sig = translated[id.Name]
	if sig == nil || len(ce.Args) != len(sig.params) {
		return "", nil, nil, nil, false
	}
	args := []string{id.Name, "fuel"}
	for i, a := range ce.Args {
		p := sig.params[i]
		switch p.kind {
		case "bytes":
			if se, isSl := a.(*ast.SliceExpr); isSl && se.Low != nil && se.High == nil && !se.Slice3 {
				// x[lo:] handed to a callee that only reads it
				sn := t.x.stateName(se.X)
				if sn == "" || t.byName[sn].kind != "bytes" || (sig.writes[p.name] && sig.reslices[p.name]) {
					t.fail(a, "unsupported []byte slice argument")
					return "", nil, nil, nil, false
				}
				gs = append(gs, t.guards(a)...)
				lo := t.x.exprAs(se.Low, ityp{64, true})
				args = append(args, fmt.Sprintf("(s.%s.drop (%s).toNat)", sn, lo))
				if sig.writes[p.name] {
					// the callee stores into x[lo:], which shares x's backing array: x = x[:lo] ++ (what the callee left)
					back = append(back, fmt.Sprintf("%s := s.%s.take (%s).toNat ++ c.%s", sn, sn, lo, p.name))
				}
				continue
			}
			sn := t.x.stateName(a)
			if sn == "" || t.byName[sn].kind != "bytes" {
				t.fail(a, "unsupported []byte argument")
				return "", nil, nil, nil, false
			}
			args = append(args, "s."+sn)
			if sig.writes[p.name] {
				if sig.reslices[p.name] {
					t.fail(a, "callee both stores into and re-slices its []byte parameter")
					return "", nil, nil, nil, false
				}
				back = append(back, fmt.Sprintf("%s := c.%s", sn, p.name))
			}
		case "int":
			gs = append(gs, t.guards(a)...)
			args = append(args, t.x.exprAs(a, ityp{p.w, false}))
		default:
			t.fail(a, "unsupported argument kind")
			return "", nil, nil, nil, false
		}
	}
	return "(" + strings.Join(args, " ") + ")", sig, back, gs, true
}

func proj(i, n int) string {
	if n == 1 {
		return "r"
	}
	p := "r"
	for k := 0; k < i; k++ {
		p += ".2"
	}
	if i < n-1 {
		p += ".1"
	}
	return p
}

// bytesExpr translates a []byte-valued expression: nil, a []byte variable / receiver field, x[lo:], x[:hi], x[lo:hi].
// The bounds checks of the slice expressions are returned as guards (Go checks against cap; the fragment semantics
// uses len — see Model/GoSem.lean).
func (t *ftr) bytesExpr(e ast.Expr) (term string, gs []string) {
	if id, ok := e.(*ast.Ident); ok && id.Name == "nil" {
		return "([] : Bytes)", nil
	}
	if sn := t.x.stateName(e); sn != "" && t.byName[sn].kind == "bytes" {
		return "s." + sn, nil
	}
	if se, ok := e.(*ast.SliceExpr); ok && !se.Slice3 {
		sn := t.x.stateName(se.X)
		if sn == "" || t.byName[sn].kind != "bytes" {
			return t.fail(e, "unsupported []byte expression"), nil
		}
		lo, hi := "", ""
		if se.Low != nil {
			gs = append(gs, t.guards(se.Low)...)
			lo = t.x.exprAs(se.Low, ityp{64, true})
		}
		if se.High != nil {
			gs = append(gs, t.guards(se.High)...)
			hi = t.x.exprAs(se.High, ityp{64, true})
		}
		switch {
		case lo != "" && hi != "":
			gs = append(gs, fmt.Sprintf("(%s).toNat ≤ (%s).toNat", lo, hi), fmt.Sprintf("(%s).toNat ≤ s.%s.length", hi, sn))
			return fmt.Sprintf("((s.%s.drop (%s).toNat).take ((%s).toNat - (%s).toNat))", sn, lo, hi, lo), gs
		case lo != "":
			gs = append(gs, fmt.Sprintf("(%s).toNat ≤ s.%s.length", lo, sn))
			return fmt.Sprintf("(s.%s.drop (%s).toNat)", sn, lo), gs
		case hi != "":
			gs = append(gs, fmt.Sprintf("(%s).toNat ≤ s.%s.length", hi, sn))
			return fmt.Sprintf("(s.%s.take (%s).toNat)", sn, hi), gs
		}
		return "s." + sn, nil
	}
	return t.fail(e, "unsupported []byte expression"), nil
}

// valueAs translates an expression to be stored in / returned as a variable of the given shape
func (t *ftr) valueAs(e ast.Expr, v svar) string {
	switch v.kind {
	case "bytes":
		term, gs := t.bytesExpr(e)
		t.pendingGuards = append(t.pendingGuards, gs...)
		return term
	case "err":
		return t.errExpr(e)
	case "bool":
		return t.cond(e)
	case "bools":
		if id, ok := e.(*ast.Ident); ok && id.Name == "nil" {
			return "([] : List Bool)"
		}
		if sn := t.x.stateName(e); sn != "" && t.byName[sn].kind == "bools" {
			return "s." + sn
		}
		if ce, ok := e.(*ast.CallExpr); ok && len(ce.Args) == 2 {
			if f, ok := ce.Fun.(*ast.Ident); ok && f.Name == "append" {
				if sn := t.x.stateName(ce.Args[0]); sn != "" && t.byName[sn].kind == "bools" {
					t.pendingGuards = append(t.pendingGuards, t.guards(ce.Args[1])...)
					return fmt.Sprintf("(s.%s ++ [%s])", sn, t.cond(ce.Args[1]))
				}
			}
		}
		return t.fail(e, "unsupported []bool expression")
	case "ints":
		if id, ok := e.(*ast.Ident); ok && id.Name == "nil" {
			return fmt.Sprintf("([] : List (BitVec %d))", v.w)
		}
		if sn := t.x.stateName(e); sn != "" && t.byName[sn].kind == "ints" && t.byName[sn].w == v.w {
			return "s." + sn
		}
		// append(xs, e): one element appended
		if ce, ok := e.(*ast.CallExpr); ok && len(ce.Args) == 2 {
			if f, ok := ce.Fun.(*ast.Ident); ok && f.Name == "append" {
				if sn := t.x.stateName(ce.Args[0]); sn != "" && t.byName[sn].kind == "ints" && t.byName[sn].w == v.w {
					t.pendingGuards = append(t.pendingGuards, t.guards(ce.Args[1])...)
					return fmt.Sprintf("(s.%s ++ [%s])", sn, t.x.exprAs(ce.Args[1], ityp{v.w, false}))
				}
			}
		}
		return t.fail(e, "unsupported []int expression")
	case "int":
		return t.x.exprAs(e, ityp{v.w, false})
	}
	return t.fail(e, "unsupported value position")
}

func (t *ftr) cond(e ast.Expr) string {
	switch e := e.(type) {
	case *ast.ParenExpr:
		return t.cond(e.X)
	case *ast.Ident:
		if e.Name == "true" || e.Name == "false" {
			return e.Name
		}
		if sn := t.x.stateName(e); sn != "" && t.byName[sn].kind == "bool" {
			return "s." + sn
		}
	case *ast.SelectorExpr:
		if sn := t.x.stateName(e); sn != "" && t.byName[sn].kind == "bool" {
			return "s." + sn
		}
	case *ast.UnaryExpr:
		if e.Op == token.NOT {
			return "(!" + t.cond(e.X) + ")"
		}
	case *ast.BinaryExpr:
		switch e.Op {
		case token.LAND:
			return "(" + t.cond(e.X) + " && " + t.cond(e.Y) + ")"
		case token.LOR:
			return "(" + t.cond(e.X) + " || " + t.cond(e.Y) + ")"
		case token.LSS, token.LEQ, token.GTR, token.GEQ, token.EQL, token.NEQ:
			if (e.Op == token.EQL || e.Op == token.NEQ) && (t.isErr(e.X) || t.isErr(e.Y)) {
				op := "=="
				if e.Op == token.NEQ {
					op = "!="
				}
				return fmt.Sprintf("(%s %s %s)", t.errExpr(e.X), op, t.errExpr(e.Y))
			}
			lt, ok := t.x.typeOf(e.X)
			if !ok {
				if rt, ok2 := t.x.typeOf(e.Y); ok2 {
					lt, ok = rt, true
				}
			}
			if !ok {
				return t.fail(e, "comparison of non-integers")
			}
			l, r := t.x.exprAs(e.X, lt), t.x.exprAs(e.Y, lt)
			lt_, le_ := "BitVec.ult", "BitVec.ule"
			if lt.signed {
				lt_, le_ = "BitVec.slt", "BitVec.sle"
			}
			switch e.Op {
			case token.LSS:
				return fmt.Sprintf("(%s %s %s)", lt_, l, r)
			case token.LEQ:
				return fmt.Sprintf("(%s %s %s)", le_, l, r)
			case token.GTR:
				return fmt.Sprintf("(%s %s %s)", lt_, r, l)
			case token.GEQ:
				return fmt.Sprintf("(%s %s %s)", le_, r, l)
			case token.EQL:
				return fmt.Sprintf("(%s == %s)", l, r)
			default:
				return fmt.Sprintf("(%s != %s)", l, r)
			}
		}
	}
	return t.fail(e, "unsupported condition")
}

func (t *ftr) assign(lhs []ast.Expr, rhs []ast.Expr, tok token.Token, n ast.Node) string {
	if len(rhs) == 1 {
		if ce, isCall := rhs[0].(*ast.CallExpr); isCall {
			if term, sig, back, gs, ok := t.call(ce); ok {
				if (tok == token.ADD_ASSIGN || tok == token.SUB_ASSIGN) && len(lhs) == 1 && len(sig.res) == 1 && sig.res[0].kind == "int" {
					// x += f(…): f's arguments are evaluated in the state before the call, x is read after it — x is an
					// integer variable the callee cannot reach, so both are the same value
					sn := t.x.stateName(lhs[0])
					v, known := t.byName[sn]
					if sn == "" || !known || v.kind != "int" || v.w != sig.res[0].w {
						return t.fail(lhs[0], "unsupported target of op-assignment from a call")
					}
					op := "+"
					if tok == token.SUB_ASSIGN {
						op = "-"
					}
					ups := append(back, fmt.Sprintf("%s := (s.%s %s r)", sn, sn, op))
					return "(fun s => " + withGuards(gs, fmt.Sprintf("match %s with | .ret r c => .next { s with %s } | .next _ => .panic | .panic => .panic | .diverge => .diverge", term, strings.Join(ups, ", "))) + ")"
				}
				if len(lhs) != len(sig.res) || (tok != token.ASSIGN && tok != token.DEFINE) {
					return t.fail(n, "call result count / operator mismatch")
				}
				ups := back
				for i, l := range lhs {
					id, isId := l.(*ast.Ident)
					if !isId {
						return t.fail(l, "unsupported call-assignment target")
					}
					if id.Name == "_" {
						continue
					}
					if tok == token.DEFINE {
						if obj := t.p.info.Defs[id]; obj != nil {
							t.noteObj(id)
							t.declare(t.x.identName(id), obj.Type(), id)
						}
					}
					v, known := t.byName[t.x.identName(id)]
					if !known || v.kind != sig.res[i].kind || v.w != sig.res[i].w {
						return t.fail(l, "call-assignment to a variable of another shape")
					}
					ups = append(ups, fmt.Sprintf("%s := %s", t.x.identName(id), proj(i, len(sig.res))))
				}
				return "(fun s => " + withGuards(gs, fmt.Sprintf("match %s with | .ret r c => .next { s with %s } | .next _ => .panic | .panic => .panic | .diverge => .diverge", term, strings.Join(ups, ", "))) + ")"
			}
		}
	}
	if len(lhs) != len(rhs) {
		return t.fail(n, "assignment from a multi-value call")
	}
	var gs, ups []string
	for i := range lhs {
		gs = append(gs, t.guards(rhs[i])...)
		if sel, ok := lhs[i].(*ast.SelectorExpr); ok {
			sn := t.x.stateName(sel)
			v := t.byName[sn]
			if sn == "" || v.kind != "int" {
				return t.fail(sel, "unsupported field assignment")
			}
			var val string
			if tok == token.ASSIGN {
				val = t.valueAs(rhs[i], *v)
			} else {
				op := map[token.Token]token.Token{token.ADD_ASSIGN: token.ADD, token.SUB_ASSIGN: token.SUB}[tok]
				if op == token.ILLEGAL {
					return t.fail(n, "unsupported field assignment operator "+tok.String())
				}
				be := &ast.BinaryExpr{X: sel, Op: op, Y: rhs[i]}
				t.p.info.Types[be] = types.TypeAndValue{Type: t.p.info.TypeOf(sel)}
				val = t.x.expr(be)
			}
			ups = append(ups, fmt.Sprintf("%s := %s", sn, val))
			continue
		}
		switch l := lhs[i].(type) {
		case *ast.Ident:
			if tok == token.DEFINE {
				if obj := t.p.info.Defs[l]; obj != nil {
					t.noteObj(l)
					t.declare(t.x.identName(l), obj.Type(), l)
				}
			}
			v, ok := t.byName[t.x.identName(l)]
			if !ok {
				return t.fail(l, "assignment to an unknown variable "+l.Name)
			}
			lname := l.Name
			_ = lname
			var val string
			switch {
			case tok == token.ASSIGN || tok == token.DEFINE:
				if v.kind == "bytes" {
					term, bgs := t.bytesExpr(rhs[i])
					gs = append(gs, bgs...)
					val = term
				} else {
					val = t.valueAs(rhs[i], *v)
				}
			default:
				// op-assignment: x op= e  ==  x = x op e
				op := map[token.Token]token.Token{token.ADD_ASSIGN: token.ADD, token.SUB_ASSIGN: token.SUB, token.OR_ASSIGN: token.OR,
					token.AND_ASSIGN: token.AND, token.XOR_ASSIGN: token.XOR, token.SHL_ASSIGN: token.SHL, token.SHR_ASSIGN: token.SHR, token.MUL_ASSIGN: token.MUL}[tok]
				if op == token.ILLEGAL {
					return t.fail(n, "unsupported assignment operator "+tok.String())
				}
				be := &ast.BinaryExpr{X: l, Op: op, Y: rhs[i]}
				// give the synthetic node the type of the variable
				t.p.info.Types[be] = types.TypeAndValue{Type: t.p.info.TypeOf(l)}
				val = t.x.expr(be)
			}
			ups = append(ups, fmt.Sprintf("%s := %s", t.x.identName(l), val))
		case *ast.IndexExpr:
			sn := t.x.stateName(l.X)
			if sn == "" || t.byName[sn].kind != "bytes" || tok != token.ASSIGN {
				return t.fail(l, "unsupported store")
			}
			idx := t.x.expr(l.Index)
			gs = append(gs, t.guards(l.Index)...)
			gs = append(gs, fmt.Sprintf("(%s).toNat < s.%s.length", idx, sn))
			ups = append(ups, fmt.Sprintf("%s := Go.wr s.%s (%s).toNat %s", sn, sn, idx, t.x.exprAs(rhs[i], ityp{8, false})))
		default:
			return t.fail(lhs[i], "unsupported assignment target")
		}
	}
	return "(fun s => " + withGuards(gs, ".next { s with "+strings.Join(ups, ", ")+" }") + ")"
}

func (t *ftr) stmt(s ast.Stmt) string {
	switch s := s.(type) {
	case *ast.BlockStmt:
		return t.block(s.List)
	case *ast.AssignStmt:
		return t.assign(s.Lhs, s.Rhs, s.Tok, s)
	case *ast.IncDecStmt:
		one := &ast.BasicLit{Kind: token.INT, Value: "1"}
		tok := token.ADD_ASSIGN
		if s.Tok == token.DEC {
			tok = token.SUB_ASSIGN
		}
		it, _ := t.x.typeOf(s.X)
		t.p.info.Types[one] = types.TypeAndValue{Type: t.p.info.TypeOf(s.X), Value: constantOne()}
		_ = it
		return t.assign([]ast.Expr{s.X}, []ast.Expr{one}, tok, s)
	case *ast.DeclStmt:
		gd, ok := s.Decl.(*ast.GenDecl)
		if !ok || gd.Tok != token.VAR {
			return t.fail(s, "unsupported declaration")
		}
		for _, sp := range gd.Specs {
			vs := sp.(*ast.ValueSpec)
			if len(vs.Values) != 0 {
				return t.fail(s, "unsupported initialised var declaration")
			}
			for _, n := range vs.Names {
				t.noteObj(n)
				t.declare(t.x.identName(n), t.p.info.Defs[n].Type(), n)
			}
		}
		return "Go.skip"
	case *ast.ReturnStmt:
		if len(s.Results) == 0 && len(t.res) == 0 {
			return "(fun s => .ret () s)"
		}
		if len(s.Results) == 1 {
			if ce, isCall := s.Results[0].(*ast.CallExpr); isCall {
				if term, sig, back, gs, ok := t.call(ce); ok {
					if len(sig.res) != len(t.res) {
						return t.fail(s, "returned call has another number of results")
					}
					for i := range sig.res {
						if sig.res[i].kind != t.res[i].kind || sig.res[i].w != t.res[i].w {
							return t.fail(s, "returned call has results of another shape")
						}
					}
					st := "s"
					if len(back) > 0 {
						st = "{ s with " + strings.Join(back, ", ") + " }"
					}
					return "(fun s => " + withGuards(gs, fmt.Sprintf("match %s with | .ret r c => .ret r %s | .next _ => .panic | .panic => .panic | .diverge => .diverge", term, st)) + ")"
				}
			}
		}
		if len(s.Results) != len(t.res) {
			return t.fail(s, "bare return / wrong number of results")
		}
		var gs, vals []string
		t.pendingGuards = nil
		for i, r := range s.Results {
			if t.res[i].kind != "bytes" && t.res[i].kind != "ints" && t.res[i].kind != "bools" {
				gs = append(gs, t.guards(r)...)
			}
			vals = append(vals, t.valueAs(r, t.res[i]))
		}
		gs = append(gs, t.pendingGuards...)
		t.pendingGuards = nil
		return "(fun s => " + withGuards(gs, ".ret ("+strings.Join(vals, ", ")+") s") + ")"
	case *ast.IfStmt:
		init := ""
		if s.Init != nil {
			init = t.stmt(s.Init)
		}
		c := t.cond(s.Cond)
		gs := t.guards(s.Cond)
		els := "Go.skip"
		if s.Else != nil {
			els = t.stmt(s.Else)
		}
		ifs := "(fun s => " + withGuards(gs, fmt.Sprintf("if %s then %s s else %s s", c, t.block(s.Body.List), els)) + ")"
		if init != "" {
			return fmt.Sprintf("(Go.seq %s %s)", init, ifs)
		}
		return ifs
	case *ast.ForStmt:
		init, post := "Go.skip", "Go.skip"
		if s.Init != nil {
			init = t.stmt(s.Init)
		}
		cond := "(fun _ => some true)"
		if s.Cond != nil {
			gs := t.guards(s.Cond)
			c := t.cond(s.Cond)
			if len(gs) == 0 {
				cond = "(fun s => some " + c + ")"
			} else {
				cond = fmt.Sprintf("(fun s => if %s then some %s else none)", guardExpr(gs), c)
			}
		}
		body := t.block(s.Body.List)
		if s.Post != nil {
			post = t.stmt(s.Post)
		}
		t.nloop++
		ln := fmt.Sprintf("%s.loop%d", t.fn, t.nloop)
		t.loops = append(t.loops, fmt.Sprintf("def %s.cond : %s.St → Option Bool := %s\ndef %s.body (fuel : Nat) : %s.St → Go.Out %s.St %s.R :=\n  %s\ndef %s.post : %s.St → Go.Out %s.St %s.R := %s\n",
			ln, t.fn, cond, ln, t.fn, t.fn, t.fn, body, ln, t.fn, t.fn, t.fn, post))
		return fmt.Sprintf("(Go.seq %s (Go.loop %s.cond (%s.body fuel) %s.post fuel))", init, ln, ln, ln)
	case *ast.RangeStmt:
		// for _, v := range xs { … }: the elements of the list as it is when the loop starts, in order
		if s.Key != nil {
			if id, ok := s.Key.(*ast.Ident); !ok || id.Name != "_" {
				return t.fail(s, "range with an index variable")
			}
		}
		vid, ok := s.Value.(*ast.Ident)
		xs := t.x.stateName(s.X)
		if !ok || xs == "" || s.Tok != token.DEFINE || (t.byName[xs].kind != "ints" && t.byName[xs].kind != "bools") {
			return t.fail(s, "unsupported range statement")
		}
		if obj := t.p.info.Defs[vid]; obj != nil {
			t.noteObj(vid)
			t.declare(t.x.identName(vid), obj.Type(), vid)
		}
		vn := t.x.identName(vid)
		if v, known := t.byName[vn]; !known || (t.byName[xs].kind == "ints" && (v.kind != "int" || v.w != t.byName[xs].w)) {
			return t.fail(s, "range variable of another shape")
		}
		body := t.block(s.Body.List)
		return fmt.Sprintf("(Go.forEach (fun s => s.%s) (fun s x => { s with %s := x })\n    %s)", xs, vn, body)
	case *ast.SwitchStmt:
		if s.Init != nil {
			return t.fail(s, "switch with init statement")
		}
		// cases are tried top to bottom, `default` last wherever it stands; no fallthrough
		type arm struct{ cond, body string }
		var arms []arm
		def := "Go.skip"
		var gs []string
		for _, c := range s.Body.List {
			cc := c.(*ast.CaseClause)
			for _, st := range cc.Body {
				if br, ok := st.(*ast.BranchStmt); ok && br.Tok == token.FALLTHROUGH {
					return t.fail(st, "fallthrough")
				}
			}
			body := t.block(cc.Body)
			if cc.List == nil {
				def = body
				continue
			}
			var cs []string
			for _, e := range cc.List {
				gs = append(gs, t.guards(e)...)
				if s.Tag == nil {
					cs = append(cs, t.cond(e))
				} else {
					eq := &ast.BinaryExpr{X: s.Tag, Op: token.EQL, Y: e}
					cs = append(cs, t.cond(eq))
				}
			}
			arms = append(arms, arm{"(" + strings.Join(cs, " || ") + ")", body})
		}
		if s.Tag != nil {
			gs = append(gs, t.guards(s.Tag)...)
		}
		out := def + " s"
		for i := len(arms) - 1; i >= 0; i-- {
			out = fmt.Sprintf("if %s then %s s else %s", arms[i].cond, arms[i].body, out)
		}
		return "(fun s => " + withGuards(gs, out) + ")"
	case *ast.ExprStmt, *ast.EmptyStmt:
		if _, ok := s.(*ast.EmptyStmt); ok {
			return "Go.skip"
		}
		// binary.LittleEndian.PutUint32(b, v) / PutUint64(b, v) (encoding/binary: `_ = b[3]` resp. `_ = b[7]`, then one
		// store per byte, least significant first) — a TRUSTED rendering of the standard library
		if es, ok := s.(*ast.ExprStmt); ok {
			if ce, ok := es.X.(*ast.CallExpr); ok && len(ce.Args) == 2 {
				if sel, ok := ce.Fun.(*ast.SelectorExpr); ok && (sel.Sel.Name == "PutUint32" || sel.Sel.Name == "PutUint64") && exprString(sel.X) == "binary.LittleEndian" {
					k := 4
					if sel.Sel.Name == "PutUint64" {
						k = 8
					}
					if dst := t.x.stateName(ce.Args[0]); dst != "" && t.byName[dst].kind == "bytes" {
						v := t.x.exprAs(ce.Args[1], ityp{k * 8, false})
						return fmt.Sprintf("(fun s => if %d ≤ s.%s.length then .next { s with %s := Go.putLE s.%s %d (%s).toNat } else .panic)", k, dst, dst, dst, k, v)
					}
				}
			}
		}
		// copy(dst[lo:], src): as many bytes as fit are copied (silently truncated), dst keeps its length
		if es, ok := s.(*ast.ExprStmt); ok {
			if ce, ok := es.X.(*ast.CallExpr); ok && len(ce.Args) == 2 {
				if f, ok := ce.Fun.(*ast.Ident); ok && f.Name == "copy" {
					se, isSl := ce.Args[0].(*ast.SliceExpr)
					src := t.x.stateName(ce.Args[1])
					if isSl && se.Low != nil && se.High == nil && !se.Slice3 && src != "" && t.byName[src].kind == "bytes" {
						if dst := t.x.stateName(se.X); dst != "" && t.byName[dst].kind == "bytes" && dst != src {
							lo := t.x.exprAs(se.Low, ityp{64, true})
							gs := append(t.guards(se.Low), fmt.Sprintf("(%s).toNat ≤ s.%s.length", lo, dst))
							return "(fun s => " + withGuards(gs, fmt.Sprintf(".next { s with %s := Go.copyAt s.%s (%s).toNat s.%s }", dst, dst, lo, src)) + ")"
						}
					}
				}
			}
		}
	}
	return t.fail(s, fmt.Sprintf("unsupported statement %T", s))
}

func (t *ftr) block(ss []ast.Stmt) string {
	if len(ss) == 0 {
		return "Go.skip"
	}
	// translate in source order (declarations come before uses), then nest to the right
	parts := make([]string, len(ss))
	for i, st := range ss {
		parts[i] = t.stmt(st)
	}
	out := parts[len(parts)-1]
	for i := len(parts) - 2; i >= 0; i-- {
		out = fmt.Sprintf("(Go.seq %s\n    %s)", parts[i], out)
	}
	return out
}

// translateFunc renders one function. Parameters become the initial state; named results start at zero.
func translateFunc(p *pkgInfo, name string, b *strings.Builder) []string {
	var fd *ast.FuncDecl
	goName := name
	if i := strings.Index(name, "."); i > 0 {
		fd = p.methodDecl(name[:i], name[i+1:])
		name = strings.Replace(name, ".", "_", 1)
	} else {
		fd = p.funcDecl(name)
	}
	if fd == nil {
		return []string{"missing function " + goName}
	}
	t := &ftr{p: p, fn: name, byName: map[string]*svar{}}
	t.x = &xlate{p: p, stateVars: t.byName, bytesIndex: true}
	var params []string
	var inits []string
	if fd.Recv != nil && len(fd.Recv.List) == 1 && len(fd.Recv.List[0].Names) == 1 {
		// the receiver's fields are state variables `recv_field`, parameters of the translated function
		rn := fd.Recv.List[0].Names[0]
		t.x.recv = rn.Name
		rt := p.info.Defs[rn].Type()
		if pt, ok := rt.(*types.Pointer); ok {
			rt = pt.Elem()
		}
		st, ok := rt.Underlying().(*types.Struct)
		if !ok {
			return []string{"receiver of " + goName + " is not a struct"}
		}
		for i := 0; i < st.NumFields(); i++ {
			f := st.Field(i)
			fname := rn.Name + "_" + f.Name()
			t.declare(fname, f.Type(), rn)
			if v, ok := t.byName[fname]; ok {
				params = append(params, fmt.Sprintf("(%s : %s)", fname, v.lean))
				inits = append(inits, fmt.Sprintf("%s := %s", fname, fname))
			}
		}
	}
	for _, f := range fd.Type.Params.List {
		for _, n := range f.Names {
			t.noteObj(n)
			t.declare(n.Name, p.info.Defs[n].Type(), n)
			if v, ok := t.byName[n.Name]; ok {
				params = append(params, fmt.Sprintf("(%s : %s)", n.Name, v.lean))
				inits = append(inits, fmt.Sprintf("%s := %s", n.Name, n.Name))
			}
		}
	}
	if fd.Type.Results != nil {
		for i, f := range fd.Type.Results.List {
			ty := p.info.TypeOf(f.Type)
			if len(f.Names) == 0 {
				v := svar{name: fmt.Sprintf("r%d", i)}
				if it, ok := intType(ty); ok {
					v.kind, v.w, v.lean = "int", it.w, fmt.Sprintf("BitVec %d", it.w)
				} else if ty.String() == "error" {
					v.kind, v.lean = "err", "Go.Err"
				} else if ty.String() == "[]byte" {
					v.kind, v.lean = "bytes", "Bytes"
				} else if ty.String() == "bool" {
					v.kind, v.lean = "bool", "Bool"
				} else if sl, ok := ty.Underlying().(*types.Slice); ok {
					if it, ok := intType(sl.Elem()); ok {
						v.kind, v.w, v.lean = "ints", it.w, fmt.Sprintf("List (BitVec %d)", it.w)
					} else if b, ok := sl.Elem().Underlying().(*types.Basic); ok && b.Kind() == types.Bool {
						v.kind, v.lean = "bools", "List Bool"
					} else {
						t.fail(f.Type, "unsupported result type")
					}
				} else {
					t.fail(f.Type, "unsupported result type")
				}
				t.res = append(t.res, v)
				continue
			}
			for _, n := range f.Names {
				t.noteObj(n)
				t.declare(n.Name, ty, n)
				if v, ok := t.byName[n.Name]; ok {
					t.res = append(t.res, *v)
				}
			}
		}
	}
	// long bodies are emitted one definition per top-level statement (`<fn>.s1`, `<fn>.s2`, …) so that the bridge can
	// prove a lemma per statement
	split := splitBodies[goName]
	var stmts []string
	body := ""
	if split {
		for _, st := range fd.Body.List {
			stmts = append(stmts, t.stmt(st))
		}
		for i := len(stmts) - 1; i >= 0; i-- {
			ref := fmt.Sprintf("(%s.s%d fuel)", name, i+1)
			if body == "" {
				body = ref
			} else {
				body = fmt.Sprintf("(Go.seq %s\n    %s)", ref, body)
			}
		}
	} else {
		body = t.block(fd.Body.List) // declares the locals as a side effect
	}
	t.errs = append(t.errs, t.x.errs...)
	if len(t.errs) > 0 {
		return t.errs
	}
	var rts []string
	for _, r := range t.res {
		rts = append(rts, r.lean)
	}
	sig := &fsig{res: t.res, writes: map[string]bool{}, reslices: map[string]bool{}}
	for _, f := range fd.Type.Params.List {
		for _, n := range f.Names {
			if v, ok := t.byName[n.Name]; ok {
				sig.params = append(sig.params, *v)
			}
		}
	}
	ast.Inspect(fd.Body, func(n ast.Node) bool {
		switch n := n.(type) {
		case *ast.AssignStmt:
			for _, l := range n.Lhs {
				if ix, ok := l.(*ast.IndexExpr); ok {
					if id, ok := ix.X.(*ast.Ident); ok {
						sig.writes[id.Name] = true
					}
				}
				if id, ok := l.(*ast.Ident); ok {
					if v, ok := t.byName[id.Name]; ok && v.kind == "bytes" {
						sig.reslices[id.Name] = true
					}
				}
			}
		case *ast.CallExpr: // a callee that stores into a slice we pass on
			if sel, ok := n.Fun.(*ast.SelectorExpr); ok && (sel.Sel.Name == "PutUint32" || sel.Sel.Name == "PutUint64") && len(n.Args) == 2 {
				if aid, ok := n.Args[0].(*ast.Ident); ok {
					sig.writes[aid.Name] = true
				}
			}
			if id, ok := n.Fun.(*ast.Ident); ok {
				if cs := translated[id.Name]; cs != nil {
					for i, a := range n.Args {
						if aid, ok := a.(*ast.Ident); ok && i < len(cs.params) && cs.writes[cs.params[i].name] {
							sig.writes[aid.Name] = true
						}
					}
				}
			}
		}
		return true
	})
	translated[name] = sig
	fmt.Fprintf(b, "/-! ### `%s` (%s) -/\n\n", goName, p.fset.Position(fd.Pos()))
	fmt.Fprintf(b, "structure %s.St where\n", name)
	seen := map[string]bool{}
	for _, n := range inits {
		seen[strings.SplitN(n, " ", 2)[0]] = true
	}
	for _, v := range t.vars {
		if seen[v.name] {
			fmt.Fprintf(b, "  %s : %s\n", v.name, v.lean)
		} else {
			fmt.Fprintf(b, "  %s : %s := %s\n", v.name, v.lean, v.zero)
		}
	}
	end := "Go.missingReturn"
	if len(rts) == 0 { // no results: falling off the end is the return
		rts = []string{"Unit"}
		end = "(fun s => .ret () s)"
	}
	fmt.Fprintf(b, "\nabbrev %s.R := %s\n\n", name, strings.Join(rts, " × "))
	for _, l := range t.loops {
		b.WriteString(l + "\n")
	}
	for i, st := range stmts {
		fmt.Fprintf(b, "/-- statement %d of `%s` -/\ndef %s.s%d (fuel : Nat) : %s.St → Go.Out %s.St %s.R :=\n  %s\n\n", i+1, goName, name, i+1, name, name, name, st)
	}
	fmt.Fprintf(b, "/-- the body of `%s`, statement by statement -/\ndef %s.body (fuel : Nat) : %s.St → Go.Out %s.St %s.R :=\n  (Go.seq %s\n    %s)\n\n", name, name, name, name, name, body, end)
	fmt.Fprintf(b, "def %s (fuel : Nat) %s : Go.Out %s.St %s.R :=\n  %s.body fuel { %s }\n\n", name, strings.Join(params, " "), name, name, name, strings.Join(inits, ", "))
	return nil
}

func writeWireFuncs(p *pkgInfo, outPath string) {
	var b strings.Builder
	b.WriteString("/- REGENERATED on every run by harness/cmd/extract (wirefuncs.go): the bodies of the wire primitives of\n   /repo's encoder.go / decoder.go, translated statement by statement. Do not edit. -/\n")
	b.WriteString("import Csproto.Model.GoSem\nimport Csproto.Generated.Facts\nset_option linter.unusedVariables false\nnamespace Csproto.Generated.WireFuncs\nopen Csproto\n\n")
	for _, fn := range []string{"EncodeVarint", "DecodeVarint", "DecodeFixed32", "DecodeFixed64",
		"EncodeFixed32", "EncodeFixed64", "EncodeTag", "EncodeZigZag32", "EncodeZigZag64", "DecodeZigZag32", "DecodeZigZag64",
		"Decoder.Offset", "Decoder.Reset", "Decoder.DecodeTag", "Decoder.DecodeUInt64", "Decoder.DecodeInt64", "Decoder.DecodeUInt32",
		"Decoder.DecodeInt32", "Decoder.DecodeSInt32", "Decoder.DecodeSInt64", "Decoder.DecodeFixed32", "Decoder.DecodeFixed64",
		"Decoder.DecodeBytes", "Decoder.Skip", "Decoder.DecodeBool", "Decoder.More", "Decoder.Seek", "Decoder.DecodePackedUint64", "Decoder.DecodePackedInt64", "Decoder.DecodePackedSint64", "Decoder.DecodePackedSint32", "Decoder.DecodePackedUint32", "Decoder.DecodePackedInt32", "Decoder.DecodePackedFixed64", "Decoder.DecodePackedFixed32", "Decoder.DecodePackedBool", "Encoder.EncodeBytes", "Encoder.EncodeMapEntryHeader", "Encoder.EncodeRaw", "Encoder.EncodeFixed32", "Encoder.EncodeFixed64", "Encoder.EncodePackedBool", "Encoder.EncodePackedUInt64", "Encoder.EncodePackedInt32", "Encoder.EncodePackedInt64", "Encoder.EncodePackedUInt32", "Encoder.EncodePackedSInt64", "Encoder.EncodePackedSInt32", "Encoder.EncodeBool",
		"Encoder.EncodeUInt64", "Encoder.EncodeUInt32", "Encoder.EncodeInt64", "Encoder.EncodeInt32", "Encoder.EncodeSInt32", "Encoder.EncodeSInt64"} {
		if errs := translateFunc(p, fn, &b); len(errs) > 0 {
			fmt.Println("wire primitive", fn, "is outside the translatable fragment (Bridge/WireFuncs.lean no longer applies):")
			for _, e := range errs {
				fmt.Println("  ", e)
			}
			// leave a file that does not define the function: the bridge theorems fail to elaborate
			fmt.Fprintf(&b, "-- %s: NOT TRANSLATED (%s)\n\n", fn, strings.Join(errs, "; "))
			continue
		}
		fmt.Printf("fact F20 wire primitive %s translated\n", fn)
	}
	b.WriteString("end Csproto.Generated.WireFuncs\n")
	writeIfChanged(outPath, []byte(b.String()))
	_ = os.Stdout
}
