// extract: regenerates lean/Csproto/Generated/*.lean from /repo's current Go source.
//
// Only semantic facts are extracted (constant values, straight-line integer expressions, tables),
// so reformatting or renaming locals does not disturb them; a changed constant or expression changes
// the Lean term the bridge lemmas and property theorems are about.
package main

import (
	"bytes"
	"flag"
	"fmt"
	"go/ast"
	"go/constant"
	"go/importer"
	"go/parser"
	"go/token"
	"go/types"
	"os"
	"path/filepath"
	"sort"
	"strings"
)

var (
	repo = flag.String("repo", "/repo", "repository root")
	out  = flag.String("out", "", "output directory for Generated/*.lean")
)

type pkgInfo struct {
	fset  *token.FileSet
	files []*ast.File
	info  *types.Info
	pkg   *types.Package
}

func load(dir string) (*pkgInfo, error) {
	fset := token.NewFileSet()
	pkgs, err := parser.ParseDir(fset, dir, func(fi os.FileInfo) bool {
		return !strings.HasSuffix(fi.Name(), "_test.go") && fi.Name() != "verif_hooks.go" && fi.Name() != "tools.go"
	}, parser.ParseComments)
	if err != nil {
		return nil, err
	}
	var files []*ast.File
	for _, p := range pkgs {
		if strings.HasSuffix(p.Name, "_test") {
			continue
		}
		names := make([]string, 0, len(p.Files))
		for n := range p.Files {
			names = append(names, n)
		}
		sort.Strings(names)
		for _, n := range names {
			files = append(files, p.Files[n])
		}
	}
	info := &types.Info{Types: map[ast.Expr]types.TypeAndValue{}, Defs: map[*ast.Ident]types.Object{}, Uses: map[*ast.Ident]types.Object{}}
	conf := types.Config{Importer: importer.ForCompiler(fset, "source", nil), Error: func(error) {}}
	pkg, _ := conf.Check(filepath.Base(dir), fset, files, info)
	return &pkgInfo{fset, files, info, pkg}, nil
}

func (p *pkgInfo) constVal(name string) (string, bool) {
	if p.pkg == nil {
		return "", false
	}
	obj := p.pkg.Scope().Lookup(name)
	c, ok := obj.(*types.Const)
	if !ok {
		return "", false
	}
	if c.Val().Kind() != constant.Int {
		return "", false
	}
	return c.Val().ExactString(), true
}

func (p *pkgInfo) funcDecl(name string) *ast.FuncDecl {
	for _, f := range p.files {
		for _, d := range f.Decls {
			if fd, ok := d.(*ast.FuncDecl); ok && fd.Recv == nil && fd.Name.Name == name {
				return fd
			}
		}
	}
	return nil
}

// ---- integer expression translator (Go -> Lean BitVec) ----

type ityp struct {
	w      int
	signed bool
}

func intType(t types.Type) (ityp, bool) {
	b, ok := t.Underlying().(*types.Basic)
	if !ok {
		return ityp{}, false
	}
	switch b.Kind() {
	case types.Int, types.Int64:
		return ityp{64, true}, true
	case types.Uint, types.Uint64, types.Uintptr:
		return ityp{64, false}, true
	case types.Int32:
		return ityp{32, true}, true
	case types.Uint32:
		return ityp{32, false}, true
	case types.Int16:
		return ityp{16, true}, true
	case types.Uint16:
		return ityp{16, false}, true
	case types.Int8:
		return ityp{8, true}, true
	case types.Uint8:
		return ityp{8, false}, true
	}
	return ityp{}, false
}

type xlate struct {
	p    *pkgInfo
	errs []string
	// statement translator (wirefuncs.go): identifiers that are state variables are rendered `s.<name>`,
	// `p[i]` of a []byte variable as a bounds-unchecked load (the statement carries the check), `len(p)` as the length
	stateVars  map[string]*svar
	bytesIndex bool
	recv       string // method translation: name of the receiver; `recv.f` is the state variable `recv_f`
	// a variable that SHADOWS one of an enclosing scope gets its own state variable (`n_1`): object -> state name
	objName map[types.Object]string
}

// identName: the state-variable name an identifier denotes (its own name unless it was renamed for shadowing)
func (x *xlate) identName(id *ast.Ident) string {
	if x.objName != nil {
		obj := x.p.info.Uses[id]
		if obj == nil {
			obj = x.p.info.Defs[id]
		}
		if obj != nil {
			if n, ok := x.objName[obj]; ok {
				return n
			}
		}
	}
	return id.Name
}

// stateName: the state variable an identifier or a receiver field denotes ("" if none)
func (x *xlate) stateName(e ast.Expr) string {
	switch e := e.(type) {
	case *ast.Ident:
		if x.stateVars != nil {
			if _, ok := x.stateVars[x.identName(e)]; ok {
				return x.identName(e)
			}
		}
	case *ast.SelectorExpr:
		if id, ok := e.X.(*ast.Ident); ok && x.recv != "" && id.Name == x.recv {
			n := x.recv + "_" + e.Sel.Name
			if _, ok := x.stateVars[n]; ok {
				return n
			}
		}
	}
	return ""
}

func constantOne() constant.Value { return constant.MakeInt64(1) }

func (x *xlate) fail(e ast.Expr, why string) string {
	x.errs = append(x.errs, fmt.Sprintf("%s: %s", x.p.fset.Position(e.Pos()), why))
	return "sorryUnsupported"
}

func (x *xlate) typeOf(e ast.Expr) (ityp, bool) {
	tv, ok := x.p.info.Types[e]
	if !ok || tv.Type == nil {
		return ityp{}, false
	}
	return intType(tv.Type)
}

// expr translates e to a Lean term of type BitVec w where w is e's Go type width.
func (x *xlate) expr(e ast.Expr) string {
	tv := x.p.info.Types[e]
	if tv.Value != nil && tv.Value.Kind() == constant.Int {
		t, ok := intType(tv.Type)
		if !ok {
			// untyped constant: caller decides the width
			return x.fail(e, "untyped constant in unsupported position")
		}
		v := tv.Value.ExactString()
		if strings.HasPrefix(v, "-") {
			return fmt.Sprintf("(BitVec.ofInt %d (%s))", t.w, v)
		}
		return fmt.Sprintf("%s#%d", v, t.w)
	}
	switch e := e.(type) {
	case *ast.ParenExpr:
		return x.expr(e.X)
	case *ast.Ident:
		if x.stateVars != nil {
			if _, ok := x.stateVars[x.identName(e)]; ok {
				return "s." + x.identName(e)
			}
		}
		return e.Name
	case *ast.SelectorExpr:
		if n := x.stateName(e); n != "" {
			return "s." + n
		}
		return x.fail(e, "unsupported selector expression")
	case *ast.IndexExpr:
		if x.bytesIndex {
			if n := x.stateName(e.X); n != "" {
				if v := x.stateVars[n]; v.kind == "bytes" {
					return fmt.Sprintf("(Go.rd s.%s (%s).toNat)", n, x.expr(e.Index))
				}
			}
		}
		return x.fail(e, "unsupported index expression")
	case *ast.BinaryExpr:
		lt, ok := x.typeOf(e.X)
		if !ok {
			return x.fail(e, "non-integer operand")
		}
		l := x.expr(e.X)
		switch e.Op {
		case token.SHL, token.SHR:
			cv := x.p.info.Types[e.Y].Value
			if cv == nil {
				if x.stateVars == nil {
					return x.fail(e, "non-constant shift count")
				}
				// variable shift count (Go: a count >= the width gives 0 / the sign fill, as BitVec does)
				r := x.expr(e.Y)
				if e.Op == token.SHL {
					return fmt.Sprintf("(%s <<< (%s).toNat)", l, r)
				}
				if lt.signed {
					return fmt.Sprintf("(BitVec.sshiftRight %s (%s).toNat)", l, r)
				}
				return fmt.Sprintf("(%s >>> (%s).toNat)", l, r)
			}
			n := cv.ExactString()
			if e.Op == token.SHL {
				return fmt.Sprintf("(%s <<< %s)", l, n)
			}
			if lt.signed {
				return fmt.Sprintf("(BitVec.sshiftRight %s %s)", l, n)
			}
			return fmt.Sprintf("(%s >>> %s)", l, n)
		}
		r := x.exprAs(e.Y, lt)
		switch e.Op {
		case token.XOR:
			return fmt.Sprintf("(%s ^^^ %s)", l, r)
		case token.OR:
			return fmt.Sprintf("(%s ||| %s)", l, r)
		case token.AND:
			return fmt.Sprintf("(%s &&& %s)", l, r)
		case token.ADD:
			return fmt.Sprintf("(%s + %s)", l, r)
		case token.SUB:
			return fmt.Sprintf("(%s - %s)", l, r)
		case token.MUL:
			return fmt.Sprintf("(%s * %s)", l, r)
		case token.QUO:
			if lt.signed {
				return fmt.Sprintf("(BitVec.sdiv %s %s)", l, r)
			}
			return fmt.Sprintf("(%s / %s)", l, r)
		}
		return x.fail(e, "unsupported operator "+e.Op.String())
	case *ast.CallExpr:
		// conversion?
		if tv, ok := x.p.info.Types[e.Fun]; ok && tv.IsType() && len(e.Args) == 1 {
			to, ok1 := intType(tv.Type)
			from, ok2 := x.typeOf(e.Args[0])
			if !ok1 || !ok2 {
				return x.fail(e, "non-integer conversion")
			}
			a := x.expr(e.Args[0])
			switch {
			case to.w == from.w:
				return a
			case to.w < from.w:
				return fmt.Sprintf("(BitVec.setWidth %d %s)", to.w, a)
			case from.signed:
				return fmt.Sprintf("(BitVec.signExtend %d %s)", to.w, a)
			default:
				return fmt.Sprintf("(BitVec.setWidth %d %s)", to.w, a)
			}
		}
		name := ""
		switch f := e.Fun.(type) {
		case *ast.Ident:
			name = f.Name
		case *ast.SelectorExpr:
			if id, ok := f.X.(*ast.Ident); ok {
				name = id.Name + "." + f.Sel.Name
			}
		}
		args := make([]string, len(e.Args))
		if name != "len" {
			for i, a := range e.Args {
				args[i] = x.expr(a)
			}
		}
		switch name {
		case "len":
			if n := x.stateName(e.Args[0]); n != "" && (x.stateVars[n].kind == "bytes" || x.stateVars[n].kind == "ints" || x.stateVars[n].kind == "bools") {
				return fmt.Sprintf("(BitVec.ofNat 64 s.%s.length)", n)
			}
			return x.fail(e, "unsupported len()")
		case "bits.Len64":
			return fmt.Sprintf("(goBitsLen64 %s)", args[0])
		case "SizeOfVarint", "SizeOfTagKey", "SizeOfZigZag":
			return fmt.Sprintf("(%s %s)", name, strings.Join(args, " "))
		}
		return x.fail(e, "unsupported call "+name)
	}
	return x.fail(e, fmt.Sprintf("unsupported expression %T", e))
}

// exprAs translates e, giving an untyped constant the type t.
func (x *xlate) exprAs(e ast.Expr, t ityp) string {
	tv := x.p.info.Types[e]
	if tv.Value != nil && tv.Value.Kind() == constant.Int {
		v := tv.Value.ExactString()
		if strings.HasPrefix(v, "-") {
			return fmt.Sprintf("(BitVec.ofInt %d (%s))", t.w, v)
		}
		return fmt.Sprintf("%s#%d", v, t.w)
	}
	return x.expr(e)
}

// fnExpr finds the defining expression of a function: either its single `return <expr>` or the
// right-hand side of the assignment to variable `lhs`.
func fnExpr(fd *ast.FuncDecl, lhs string) ast.Expr {
	var found ast.Expr
	ast.Inspect(fd.Body, func(n ast.Node) bool {
		switch s := n.(type) {
		case *ast.AssignStmt:
			if lhs != "" && len(s.Lhs) == 1 && len(s.Rhs) == 1 {
				if id, ok := s.Lhs[0].(*ast.Ident); ok && id.Name == lhs {
					// skip the `dv, n, err = DecodeVarint(p)` form (3 lhs) — handled by len check
					found = s.Rhs[0]
				}
			}
		case *ast.ReturnStmt:
			if lhs == "" && len(s.Results) == 1 {
				found = s.Results[0]
			}
		}
		return true
	})
	return found
}

func paramSig(p *pkgInfo, fd *ast.FuncDecl, only map[string]bool) string {
	var parts []string
	for _, f := range fd.Type.Params.List {
		t, ok := intType(p.info.Types[f.Type].Type)
		if !ok {
			continue
		}
		for _, n := range f.Names {
			if only != nil && !only[n.Name] {
				continue
			}
			parts = append(parts, fmt.Sprintf("(%s : BitVec %d)", n.Name, t.w))
		}
	}
	return strings.Join(parts, " ")
}

// methodDecl finds a method by receiver type name and method name.
func (p *pkgInfo) methodDecl(recv, name string) *ast.FuncDecl {
	for _, f := range p.files {
		for _, d := range f.Decls {
			fd, ok := d.(*ast.FuncDecl)
			if !ok || fd.Recv == nil || fd.Name.Name != name || len(fd.Recv.List) == 0 {
				continue
			}
			t := fd.Recv.List[0].Type
			if st, ok := t.(*ast.StarExpr); ok {
				t = st.X
			}
			if id, ok := t.(*ast.Ident); ok && id.Name == recv {
				return fd
			}
		}
	}
	return nil
}

func exprString(e ast.Expr) string {
	switch e := e.(type) {
	case *ast.Ident:
		return e.Name
	case *ast.SelectorExpr:
		return exprString(e.X) + "." + e.Sel.Name
	case *ast.StarExpr:
		return "*" + exprString(e.X)
	case *ast.CallExpr:
		return exprString(e.Fun)
	}
	return fmt.Sprintf("%T", e)
}

// typeSwitchArms lists, in source order, the case types of the first type switch in fd and for
// each arm the functions/methods it calls (in order).
var curInfo *types.Info

// callName renders a callee independent of local variable names: `pkg.F` for package functions,
// `.M` for methods on a local value, `F` for functions of this package; conversions and builtins
// yield "".
func callName(ce *ast.CallExpr) string {
	if curInfo != nil {
		if tv, ok := curInfo.Types[ce.Fun]; ok && (tv.IsType() || tv.IsBuiltin()) {
			return ""
		}
	}
	switch f := ce.Fun.(type) {
	case *ast.Ident:
		return f.Name
	case *ast.SelectorExpr:
		if id, ok := f.X.(*ast.Ident); ok && curInfo != nil {
			if _, isPkg := curInfo.Uses[id].(*types.PkgName); isPkg {
				return id.Name + "." + f.Sel.Name
			}
		}
		return "." + f.Sel.Name
	}
	return "?"
}

func typeSwitchArms(fd *ast.FuncDecl) []string {
	var arms []string
	ast.Inspect(fd.Body, func(n ast.Node) bool {
		ts, ok := n.(*ast.TypeSwitchStmt)
		if !ok || arms != nil {
			return true
		}
		for _, c := range ts.Body.List {
			cc := c.(*ast.CaseClause)
			name := "default"
			if len(cc.List) > 0 {
				var ns []string
				for _, t := range cc.List {
					ns = append(ns, exprString(t))
				}
				name = strings.Join(ns, "|")
			}
			var calls []string
			for _, st := range cc.Body {
				ast.Inspect(st, func(m ast.Node) bool {
					if ce, ok := m.(*ast.CallExpr); ok {
						if n := callName(ce); n != "" {
							calls = append(calls, n)
						}
					}
					return true
				})
			}
			arms = append(arms, name+":"+strings.Join(calls, ","))
		}
		return false
	})
	return arms
}

// probeOrder lists, in source order, the interface types a dispatcher function tests with
// `x, ok := msg.(T)` and the call made when the assertion holds.
func probeOrder(fd *ast.FuncDecl) []string {
	var out []string
	// a statement that is not a probe — a guard that returns before the probes, work done ahead of them — is
	// part of the dispatcher's shape too: it is listed as "stmt:<text>" (the closing `return …` excepted)
	other := func(i int, st ast.Stmt) {
		if _, isRet := st.(*ast.ReturnStmt); isRet && i == len(fd.Body.List)-1 {
			return
		}
		txt := strings.Join(strings.Fields(nodeString(st)), " ")
		if len(txt) > 80 {
			txt = txt[:80]
		}
		out = append(out, "stmt:"+txt)
	}
	for i, st := range fd.Body.List {
		ifs, ok := st.(*ast.IfStmt)
		if !ok {
			other(i, st)
			continue
		}
		as, ok := ifs.Init.(*ast.AssignStmt)
		if !ok || len(as.Rhs) != 1 {
			other(i, st)
			continue
		}
		ta, ok := as.Rhs[0].(*ast.TypeAssertExpr)
		if !ok {
			other(i, st)
			continue
		}
		var calls []string
		ast.Inspect(ifs.Body, func(m ast.Node) bool {
			if ce, ok := m.(*ast.CallExpr); ok {
				if n := callName(ce); n != "" {
					calls = append(calls, n)
				}
			}
			return true
		})
		out = append(out, exprString(ta.Type)+":"+strings.Join(calls, ","))
	}
	return out
}

func leanStrList(xs []string) string {
	qs := make([]string, len(xs))
	for i, x := range xs {
		qs[i] = fmt.Sprintf("%q", x)
	}
	return "[" + strings.Join(qs, ", ") + "]"
}

// pkgCall resolves a call `alias.F(...)` to (import path, F); ok=false for anything else.
func pkgCall(info *types.Info, ce *ast.CallExpr) (string, string, bool) {
	sel, ok := ce.Fun.(*ast.SelectorExpr)
	if !ok {
		return "", "", false
	}
	id, ok := sel.X.(*ast.Ident)
	if !ok {
		return "", "", false
	}
	pn, ok := info.Uses[id].(*types.PkgName)
	if !ok {
		return "", "", false
	}
	return pn.Imported().Path(), sel.Sel.Name, true
}

func typePath(info *types.Info, e ast.Expr) string {
	tv, ok := info.Types[e]
	if !ok || tv.Type == nil {
		return exprString(e)
	}
	return types.TypeString(tv.Type, func(p *types.Package) string { return p.Path() })
}

// typePkgName splits a (pointer to a) named type into its package path and name.
func typePkgName(info *types.Info, e ast.Expr) (string, string) {
	tv, ok := info.Types[e]
	if !ok || tv.Type == nil {
		return "", exprString(e)
	}
	t := tv.Type
	prefix := ""
	if p, ok := t.(*types.Pointer); ok {
		t, prefix = p.Elem(), "*"
	}
	t = types.Unalias(t)
	if n, ok := t.(*types.Named); ok && n.Obj().Pkg() != nil {
		return n.Obj().Pkg().Path(), prefix + n.Obj().Name()
	}
	return "", prefix + t.String()
}

func isRuntimePkg(path string) bool {
	return strings.Contains(path, "protobuf")
}

func writeShimFacts(p *pkgInfo, outPath string) {
	var b strings.Builder
	b.WriteString("/- REGENERATED on every run by harness/cmd/extract from /repo's Go source. Do not edit. -/\nnamespace Csproto.Generated\n\n")
	// switch arms over MessageType constants
	var calls, asserts []string
	for _, f := range p.files {
		for _, dcl := range f.Decls {
			fd, ok := dcl.(*ast.FuncDecl)
			if !ok || fd.Body == nil {
				continue
			}
			fname := fd.Name.Name
			if fd.Recv != nil && len(fd.Recv.List) > 0 {
				fname = exprString(fd.Recv.List[0].Type) + "." + fname
			}
			ast.Inspect(fd.Body, func(n ast.Node) bool {
				sw, ok := n.(*ast.SwitchStmt)
				if !ok {
					return true
				}
				for _, c := range sw.Body.List {
					cc := c.(*ast.CaseClause)
					caseName := "default"
					if len(cc.List) > 0 {
						id, ok := cc.List[0].(*ast.Ident)
						if !ok || !strings.HasPrefix(id.Name, "MessageType") {
							return true // not a switch over message types
						}
						caseName = id.Name
					}
					for _, st := range cc.Body {
						ast.Inspect(st, func(m ast.Node) bool {
							switch x := m.(type) {
							case *ast.CallExpr:
								if path, name, ok := pkgCall(p.info, x); ok && isRuntimePkg(path) {
									calls = append(calls, fmt.Sprintf("(%q, %q, %q, %q)", fname, caseName, path, name))
								}
							case *ast.TypeAssertExpr:
								if x.Type != nil {
									pkg, name := typePkgName(p.info, x.Type)
									asserts = append(asserts, fmt.Sprintf("(%q, %q, %q, %q)", fname, caseName, pkg, name))
								}
							}
							return true
						})
					}
				}
				return true
			})
		}
	}
	fmt.Fprintf(&b, "/-- (function, MessageType case, import path, callee) for every runtime call inside a `switch MsgType` arm -/\ndef shimCalls : List (String × String × String × String) := [%s]\n\n", strings.Join(calls, ",\n  "))
	fmt.Fprintf(&b, "/-- (function, MessageType case, asserted type) for every type assertion inside an arm -/\ndef shimAsserts : List (String × String × String × String) := [%s]\n\n", strings.Join(asserts, ",\n  "))
	fmt.Printf("fact F6 %d runtime calls, %d assertions in MessageType switch arms\n", len(calls), len(asserts))

	// deduceMsgType: control skeleton
	var skel []string
	if fd := p.funcDecl("deduceMsgType"); fd != nil {
		var walk func(stmts []ast.Stmt, depth int)
		walk = func(stmts []ast.Stmt, depth int) {
			for _, st := range stmts {
				switch x := st.(type) {
				case *ast.IfStmt:
					cond := ""
					if as, ok := x.Init.(*ast.AssignStmt); ok && len(as.Rhs) == 1 {
						if ta, ok := as.Rhs[0].(*ast.TypeAssertExpr); ok {
							cond = "assert " + typePath(p.info, ta.Type)
						}
					}
					if cond == "" {
						cond = condString(p.info, x.Cond)
					}
					skel = append(skel, fmt.Sprintf("%d:if %s", depth, cond))
					walk(x.Body.List, depth+1)
				case *ast.ReturnStmt:
					if len(x.Results) == 1 {
						skel = append(skel, fmt.Sprintf("%d:return %s", depth, exprString(x.Results[0])))
					}
				}
			}
		}
		walk(fd.Body.List, 0)
	} else {
		fmt.Println("missing function deduceMsgType")
		os.Exit(1)
	}
	fmt.Fprintf(&b, "def deduceSkeleton : List String := %s\n\n", leanStrList(skel))
	fmt.Printf("fact F6 deduceMsgType skeleton %v\n", skel)
	// MsgType: nil guard + cache protocol (Load before deduce, Store after)
	if fd := p.funcDecl("MsgType"); fd != nil {
		var seq []string
		ast.Inspect(fd.Body, func(n ast.Node) bool {
			switch x := n.(type) {
			case *ast.CallExpr:
				if nme := callName(x); nme == ".Load" || nme == ".Store" || nme == "deduceMsgType" {
					seq = append(seq, nme)
				}
			case *ast.BinaryExpr:
				if id, ok := x.Y.(*ast.Ident); ok && id.Name == "nil" && x.Op == token.EQL {
					seq = append(seq, "nilcheck")
				}
			}
			return true
		})
		fmt.Fprintf(&b, "def msgTypeProtocol : List String := %s\n\n", leanStrList(seq))
		fmt.Printf("fact F6 MsgType protocol %v\n", seq)
	}

	// detection order inside the JSON adapters and Reset / MarshalText (type assertions in source order)
	for _, fn := range []struct{ recv, name, lean string }{{"jsonMarshaler", "MarshalJSON", "jsonMarshalProbes"}, {"jsonUnmarshaler", "UnmarshalJSON", "jsonUnmarshalProbes"}, {"", "Reset", "resetProbes"}, {"", "MarshalText", "marshalTextProbes"}} {
		var fd *ast.FuncDecl
		if fn.recv != "" {
			fd = p.methodDecl(fn.recv, fn.name)
		} else {
			fd = p.funcDecl(fn.name)
		}
		if fd == nil {
			fmt.Printf("missing function %s\n", fn.name)
			os.Exit(1)
		}
		var probes []string
		for _, st := range fd.Body.List {
			ifs, ok := st.(*ast.IfStmt)
			if !ok {
				continue
			}
			as, ok := ifs.Init.(*ast.AssignStmt)
			if !ok || len(as.Rhs) != 1 {
				continue
			}
			ta, ok := as.Rhs[0].(*ast.TypeAssertExpr)
			if !ok {
				continue
			}
			var cs []string
			ast.Inspect(ifs.Body, func(m ast.Node) bool {
				if ce, ok := m.(*ast.CallExpr); ok {
					if path, name, ok := pkgCall(p.info, ce); ok && isRuntimePkg(path) {
						cs = append(cs, path+"."+name)
					} else if n := callName(ce); strings.HasPrefix(n, ".") && (strings.Contains(n, "arshal") || n == ".Reset") {
						cs = append(cs, n)
					}
				}
				return true
			})
			probes = append(probes, typePath(p.info, ta.Type)+" => "+strings.Join(cs, ","))
		}
		fmt.Fprintf(&b, "def %s : List String := %s\n\n", fn.lean, leanStrList(probes))
		fmt.Printf("fact F5 %s %v\n", fn.lean, probes)
	}

	// F7: option wiring — composite literals of the runtimes' option structs in json.go
	var wiring []string
	for _, f := range p.files {
		ast.Inspect(f, func(n ast.Node) bool {
			cl, ok := n.(*ast.CompositeLit)
			if !ok || cl.Type == nil {
				return true
			}
			tp := typePath(p.info, cl.Type)
			if !strings.Contains(tp, "json") || !strings.Contains(tp, "protobuf") {
				return true
			}
			for _, el := range cl.Elts {
				kv, ok := el.(*ast.KeyValueExpr)
				if !ok {
					continue
				}
				k, _ := kv.Key.(*ast.Ident)
				// the value must BE the csproto option field (`<receiver>.opts.<field>`); anything computed from it — a
				// local variable, a condition, a call — is recorded as the expression it is and fails the bridge lemma
				v := "expr: " + exprString(kv.Value)
				if sel, ok := kv.Value.(*ast.SelectorExpr); ok {
					if in, ok := sel.X.(*ast.SelectorExpr); ok && in.Sel.Name == "opts" {
						v = sel.Sel.Name
					}
				}
				if k != nil {
					wiring = append(wiring, fmt.Sprintf("(%q, %q, %q)", tp, k.Name, v))
				}
			}
			return true
		})
	}
	fmt.Fprintf(&b, "/-- (runtime option struct, its field, csproto option field it is wired to) -/\ndef jsonWiring : List (String × String × String) := [%s]\n\n", strings.Join(wiring, ",\n  "))
	fmt.Printf("fact F7 %d json option wirings\n", len(wiring))
	// option setters: JSONxxx(v) assigns opts.<field>
	var setters []string
	for _, f := range p.files {
		for _, dcl := range f.Decls {
			fd, ok := dcl.(*ast.FuncDecl)
			if !ok || fd.Recv != nil || !strings.HasPrefix(fd.Name.Name, "JSON") || fd.Body == nil {
				continue
			}
			ast.Inspect(fd.Body, func(n ast.Node) bool {
				as, ok := n.(*ast.AssignStmt)
				if !ok || len(as.Lhs) != 1 {
					return true
				}
				if sel, ok := as.Lhs[0].(*ast.SelectorExpr); ok {
					if x, ok := sel.X.(*ast.Ident); ok && x.Name == "opts" {
						setters = append(setters, fmt.Sprintf("(%q, %q)", fd.Name.Name, sel.Sel.Name))
					}
				}
				return true
			})
		}
	}
	fmt.Fprintf(&b, "def jsonSetters : List (String × String) := [%s]\n\n", strings.Join(setters, ", "))
	// … and nothing but the option constructors writes an option field (the wiring above reads what the caller set)
	var optWrites []string
	for _, f := range p.files {
		for _, dcl := range f.Decls {
			fd, ok := dcl.(*ast.FuncDecl)
			if !ok || fd.Body == nil || (fd.Recv == nil && strings.HasPrefix(fd.Name.Name, "JSON")) {
				continue
			}
			ast.Inspect(fd.Body, func(n ast.Node) bool {
				as, ok := n.(*ast.AssignStmt)
				if !ok {
					return true
				}
				for _, l := range as.Lhs {
					if x := exprString(l); strings.Contains(x+".", ".opts.") || strings.HasPrefix(x, "opts.") {
						optWrites = append(optWrites, fd.Name.Name+": "+x)
					}
				}
				return true
			})
		}
	}
	fmt.Fprintf(&b, "/-- assignments to a JSON option field outside the option constructors -/\ndef jsonOptionWritesElsewhere : List String := %s\n\n", leanStrList(optWrites))

	// F7b: requests to TRUST the runtime's size caches, anywhere in the root package (UseCachedSize in an option literal
	// or assignment, protoiface.MarshalUseCachedSize): csproto cannot know what happened to a message tree since a
	// cache entry was written, so no dispatcher / encoder arm may ask for it
	var cached []string
	for _, f := range p.files {
		fname := filepath.Base(p.fset.Position(f.Pos()).Filename)
		ast.Inspect(f, func(n ast.Node) bool {
			switch x := n.(type) {
			case *ast.KeyValueExpr:
				if k, ok := x.Key.(*ast.Ident); ok && k.Name == "UseCachedSize" {
					if v, ok := x.Value.(*ast.Ident); !ok || v.Name != "false" {
						cached = append(cached, fname+": UseCachedSize: "+exprString(x.Value))
					}
				}
			case *ast.SelectorExpr:
				if x.Sel.Name == "UseCachedSize" || x.Sel.Name == "MarshalUseCachedSize" {
					cached = append(cached, fname+": "+exprString(x))
				}
			}
			return true
		})
	}
	fmt.Fprintf(&b, "/-- places of the root package that ask a runtime to use its cached sizes -/\ndef cachedSizeRequests : List String := %s\n\n", leanStrList(cached))
	fmt.Printf("fact F7b %d cached-size requests, %d option writes outside the constructors\n", len(cached), len(optWrites))

	// F8: the gRPC codec
	var codec []string
	for _, m := range []string{"Marshal", "Unmarshal", "Name"} {
		fd := p.methodDecl("GrpcCodec", m)
		if fd == nil {
			fmt.Printf("missing GrpcCodec.%s\n", m)
			os.Exit(1)
		}
		ast.Inspect(fd.Body, func(n ast.Node) bool {
			switch x := n.(type) {
			case *ast.CallExpr:
				codec = append(codec, m+" -> "+callName(x))
			case *ast.BasicLit:
				codec = append(codec, m+" = "+x.Value)
			}
			return true
		})
	}
	fmt.Fprintf(&b, "def grpcCodec : List String := %s\n", leanStrList(codec))
	fmt.Printf("fact F8 grpc codec %v\n", codec)
	b.WriteString("\n")
	writeShimShape(p, &b)
	b.WriteString("\nend Csproto.Generated\n")
	writeIfChanged(outPath, []byte(b.String()))
}

// condString renders a condition with package aliases resolved and local names kept.
func condString(info *types.Info, e ast.Expr) string {
	switch x := e.(type) {
	case *ast.BinaryExpr:
		return condString(info, x.X) + " " + x.Op.String() + " " + condString(info, x.Y)
	case *ast.CallExpr:
		if path, name, ok := pkgCall(info, x); ok {
			return path + "." + name + "(…)"
		}
		return callName(x) + "(…)"
	case *ast.SelectorExpr:
		if id, ok := x.X.(*ast.Ident); ok {
			if pn, ok := info.Uses[id].(*types.PkgName); ok {
				return pn.Imported().Path() + "." + x.Sel.Name
			}
		}
		return "." + x.Sel.Name
	case *ast.BasicLit:
		return x.Value
	case *ast.Ident:
		return x.Name
	case *ast.ParenExpr:
		return "(" + condString(info, x.X) + ")"
	}
	return exprString(e)
}

func writeIfChanged(path string, data []byte) {
	old, err := os.ReadFile(path)
	if err == nil && bytes.Equal(old, data) {
		return
	}
	os.MkdirAll(filepath.Dir(path), 0o755)
	os.WriteFile(path, data, 0o644)
}

func main() {
	flag.Parse()
	if *out == "" {
		fmt.Println("need -out")
		os.Exit(2)
	}
	os.Chdir(*repo)
	root, err := load(*repo)
	if err != nil {
		fmt.Println("parse error:", err)
		os.Exit(1)
	}
	curInfo = root.info
	var b strings.Builder
	b.WriteString("/- REGENERATED on every run by harness/cmd/extract from /repo's Go source. Do not edit. -/\n")
	b.WriteString("import Csproto.Model.Basic\nnamespace Csproto.Generated\n\n")
	// F1 constants
	for _, c := range []string{"MaxTagValue", "maxFieldLen", "WireTypeVarint", "WireTypeFixed64", "WireTypeLengthDelimited", "WireTypeFixed32", "DecoderModeSafe", "DecoderModeFast"} {
		v, ok := root.constVal(c)
		if !ok {
			fmt.Printf("missing constant %s\n", c)
			os.Exit(1)
		}
		fmt.Fprintf(&b, "def %s : Int := %s\n", c, v)
		fmt.Printf("fact F1 const %s = %s\n", c, v)
	}
	// F2 straight-line integer expressions
	b.WriteString("\n/-- Go `bits.Len64` on the 64-bit pattern (result as a 64-bit `int`). -/\n")
	b.WriteString("def goBitsLen64 (x : BitVec 64) : BitVec 64 := BitVec.ofNat 64 (if x.toNat = 0 then 0 else Nat.log2 x.toNat + 1)\n\n")
	x := &xlate{p: root}
	type fx struct {
		fn, lhs, lean string
		only          map[string]bool
		retW          int
	}
	for _, f := range []fx{
		{"SizeOfVarint", "", "SizeOfVarint", nil, 64},
		{"SizeOfTagKey", "", "SizeOfTagKey", nil, 64},
		{"SizeOfZigZag", "", "SizeOfZigZag", nil, 64},
		{"EncodeZigZag32", "zz", "EncodeZigZag32_zz", map[string]bool{"v": true}, 64},
		{"EncodeZigZag64", "zz", "EncodeZigZag64_zz", map[string]bool{"v": true}, 64},
		{"EncodeTag", "k", "EncodeTag_k", map[string]bool{"tag": true, "wireType": true}, 64},
	} {
		fd := root.funcDecl(f.fn)
		if fd == nil {
			fmt.Printf("missing function %s\n", f.fn)
			os.Exit(1)
		}
		e := fnExpr(fd, f.lhs)
		if e == nil {
			fmt.Printf("function %s: defining expression not found\n", f.fn)
			os.Exit(1)
		}
		term := x.expr(e)
		fmt.Fprintf(&b, "def %s %s : BitVec %d := %s\n", f.lean, paramSig(root, fd, f.only), f.retW, term)
		fmt.Printf("fact F2 expr %s := %s\n", f.lean, term)
	}
	// the two zig-zag decoders assign `dv = <expr>` where dv : uint64 is the decoded varint
	for _, f := range []struct{ fn, lean string }{{"DecodeZigZag32", "DecodeZigZag32_dv"}, {"DecodeZigZag64", "DecodeZigZag64_dv"}} {
		fd := root.funcDecl(f.fn)
		if fd == nil {
			fmt.Printf("missing function %s\n", f.fn)
			os.Exit(1)
		}
		var e ast.Expr
		ast.Inspect(fd.Body, func(n ast.Node) bool {
			if s, ok := n.(*ast.AssignStmt); ok && len(s.Lhs) == 1 && len(s.Rhs) == 1 {
				if id, ok := s.Lhs[0].(*ast.Ident); ok && id.Name == "dv" {
					e = s.Rhs[0]
				}
			}
			return true
		})
		if e == nil {
			fmt.Printf("function %s: dv assignment not found\n", f.fn)
			os.Exit(1)
		}
		term := x.expr(e)
		fmt.Fprintf(&b, "def %s (dv : BitVec 64) : BitVec 64 := %s\n", f.lean, term)
		fmt.Printf("fact F2 expr %s := %s\n", f.lean, term)
	}
	if len(x.errs) > 0 {
		fmt.Println("untranslatable source expression (the bridge lemmas no longer apply):")
		for _, e := range x.errs {
			fmt.Println("  ", e)
		}
		os.Exit(1)
	}
	b.WriteString("\nend Csproto.Generated\n")
	writeIfChanged(filepath.Join(*out, "Facts.lean"), []byte(b.String()))

	// F5: dispatch / probe orders (marshal.go, sizeof.go, encoder.go, decoder.go)
	var d strings.Builder
	d.WriteString("/- REGENERATED on every run by harness/cmd/extract from /repo's Go source. Do not edit. -/\nnamespace Csproto.Generated\n\n")
	if fd := root.methodDecl("Encoder", "EncodeNested"); fd != nil {
		arms := typeSwitchArms(fd)
		fmt.Fprintf(&d, "def EncodeNested_arms : List String := %s\n", leanStrList(arms))
		fmt.Printf("fact F5 EncodeNested arms %v\n", arms)
	} else {
		fmt.Println("missing method Encoder.EncodeNested")
		os.Exit(1)
	}
	if fd := root.methodDecl("Decoder", "DecodeNested"); fd != nil {
		arms := typeSwitchArms(fd)
		fmt.Fprintf(&d, "def DecodeNested_arms : List String := %s\n", leanStrList(arms))
		fmt.Printf("fact F5 DecodeNested arms %v\n", arms)
	} else {
		fmt.Println("missing method Decoder.DecodeNested")
		os.Exit(1)
	}
	for _, fn := range []string{"Marshal", "Unmarshal", "Size"} {
		fd := root.funcDecl(fn)
		if fd == nil {
			fmt.Printf("missing function %s\n", fn)
			os.Exit(1)
		}
		po := probeOrder(fd)
		fmt.Fprintf(&d, "def %s_probes : List String := %s\n", fn, leanStrList(po))
		fmt.Printf("fact F5 %s probes %v\n", fn, po)
	}
	d.WriteString("\nend Csproto.Generated\n")
	writeIfChanged(filepath.Join(*out, "Dispatch.lean"), []byte(d.String()))

	// F6/F7/F8: runtime shim wiring (clone.go, equal.go, marshal_text.go, extensions.go, json.go, grpc_codec.go, message_types.go, reset.go)
	curInfo = root.info
	writeShimFacts(root, filepath.Join(*out, "Shim.lean"))
	writeWireFuncs(root, filepath.Join(*out, "WireFuncs.lean"))
	writeTemplateFacts(*repo, filepath.Join(*out, "Templates.lean"))
	writeAliasFacts(root, *repo, filepath.Join(*out, "Aliasing.lean"))
	writeToolFacts(*repo, filepath.Join(*out, "Tools.lean"))

	// F9: lazyproto accessors: helper used, expected wire type, csproto decode function, scratch slice
	lz, err := load(filepath.Join(*repo, "lazyproto"))
	if err != nil {
		fmt.Println("parse error:", err)
		os.Exit(1)
	}
	curInfo = lz.info
	var rows []string
	for _, f := range lz.files {
		for _, dcl := range f.Decls {
			fd, ok := dcl.(*ast.FuncDecl)
			if !ok || fd.Recv == nil || len(fd.Recv.List) == 0 {
				continue
			}
			rt := fd.Recv.List[0].Type
			if st, ok := rt.(*ast.StarExpr); ok {
				rt = st.X
			}
			if id, ok := rt.(*ast.Ident); !ok || id.Name != "FieldData" {
				continue
			}
			if !strings.HasSuffix(fd.Name.Name, "Value") && !strings.HasSuffix(fd.Name.Name, "Values") {
				continue
			}
			helper, wt, scratch := "-", "-", "-"
			var decs []string
			ast.Inspect(fd.Body, func(n ast.Node) bool {
				ce, ok := n.(*ast.CallExpr)
				if !ok {
					return true
				}
				name := callName(ce)
				if name == "scalarValue" || name == "sliceValue" {
					helper = name
					if len(ce.Args) >= 2 {
						wt = exprString(ce.Args[1])
					}
					if name == "sliceValue" && len(ce.Args) >= 3 {
						scratch = exprString(ce.Args[2])
					}
				}
				if strings.HasPrefix(name, "csproto.Decode") || strings.HasPrefix(name, "binary.") || strings.HasPrefix(name, "slices.Clone") {
					decs = append(decs, name)
				}
				return true
			})
			rows = append(rows, fmt.Sprintf("%s:%s:%s:%s:%s", fd.Name.Name, helper, strings.TrimPrefix(wt, "csproto."), strings.Join(decs, "+"), strings.TrimPrefix(scratch, "fd.")))
		}
	}
	sort.Strings(rows)
	var lzb strings.Builder
	lzb.WriteString("/- REGENERATED on every run by harness/cmd/extract from /repo's Go source. Do not edit. -/\nnamespace Csproto.Generated\n\n")
	fmt.Fprintf(&lzb, "def lazyAccessors : List String := %s\n", leanStrList(rows))
	for _, r := range rows {
		fmt.Printf("fact F9 accessor %s\n", r)
	}
	// F15: every write to a field of Decoder / DecodeResult / FieldData, with the enclosing function
	writes := map[string]bool{}
	namedOf := func(e ast.Expr) string {
		tv, ok := lz.info.Types[e]
		if !ok || tv.Type == nil {
			return ""
		}
		t := tv.Type
		if p, ok := t.(*types.Pointer); ok {
			t = p.Elem()
		}
		if n, ok := t.(*types.Named); ok {
			return n.Obj().Name()
		}
		return ""
	}
	var lhsField func(e ast.Expr) string
	lhsField = func(e ast.Expr) string {
		switch e := e.(type) {
		case *ast.ParenExpr:
			return lhsField(e.X)
		case *ast.SelectorExpr:
			if n := namedOf(e.X); n == "Decoder" || n == "DecodeResult" || n == "FieldData" {
				return n + "." + e.Sel.Name
			}
		case *ast.IndexExpr:
			if f := lhsField(e.X); f != "" {
				return f + "[]"
			}
		case *ast.StarExpr:
			return lhsField(e.X)
		}
		return ""
	}
	for _, f := range lz.files {
		for _, dcl := range f.Decls {
			fd, ok := dcl.(*ast.FuncDecl)
			if !ok || fd.Body == nil {
				continue
			}
			fname := fd.Name.Name
			ast.Inspect(fd.Body, func(n ast.Node) bool {
				switch st := n.(type) {
				case *ast.AssignStmt:
					for _, l := range st.Lhs {
						if fl := lhsField(l); fl != "" {
							writes[fl+"<-"+fname] = true
						}
					}
				case *ast.IncDecStmt:
					if fl := lhsField(st.X); fl != "" {
						writes[fl+"<-"+fname] = true
					}
				case *ast.CompositeLit:
					// struct literals initialise a *new* object: recorded as constructor writes
					if n := namedOf(st); n == "Decoder" || n == "DecodeResult" || n == "FieldData" {
						for _, el := range st.Elts {
							if kv, ok := el.(*ast.KeyValueExpr); ok {
								if id, ok := kv.Key.(*ast.Ident); ok {
									writes[n+"."+id.Name+"<-"+fname+"(literal)"] = true
								}
							}
						}
					}
				}
				return true
			})
		}
	}
	var wrows []string
	for w := range writes {
		wrows = append(wrows, w)
	}
	sort.Strings(wrows)
	pairs := make([]string, len(wrows))
	for i, w := range wrows {
		parts := strings.SplitN(w, "<-", 2)
		pairs[i] = fmt.Sprintf("(%q, %q)", parts[0], parts[1])
	}
	fmt.Fprintf(&lzb, "def lazyFieldWrites : List (String × String) := [%s]\n", strings.Join(pairs, ", "))
	fmt.Printf("fact F15 %d field writes in lazyproto\n", len(wrows))
	// F15b: the top-level statements of (*DecodeResult).close, in order. "reset-data" = a loop over r.flatData whose
	// only effect is `<element>.data = <element>.data[:0]` (a nil-element guard may precede it); an `if` is listed with
	// its condition. The model of the capacity options (Props/C14Opts: closeFds) empties the recorded data FIRST and
	// unconditionally, before anything that depends on the pool, the max buffer size or the filter function is looked at.
	var closeSteps []string
	for _, f := range lz.files {
		for _, dcl := range f.Decls {
			fd, ok := dcl.(*ast.FuncDecl)
			if !ok || fd.Body == nil || fd.Name.Name != "close" || fd.Recv == nil || len(fd.Recv.List) != 1 || namedOf(fd.Recv.List[0].Type) != "DecodeResult" {
				continue
			}
			for _, st := range fd.Body.List {
				switch st := st.(type) {
				case *ast.RangeStmt:
					step := "range " + types.ExprString(st.X)
					if lhsField(st.X) == "DecodeResult.flatData" {
						resets, other := 0, 0
						for _, b := range st.Body.List {
							switch b := b.(type) {
							case *ast.IfStmt: // `if r.flatData[i] == nil { continue }`
								if len(b.Body.List) == 1 && b.Else == nil && b.Init == nil {
									if br, ok := b.Body.List[0].(*ast.BranchStmt); ok && br.Tok == token.CONTINUE {
										continue
									}
								}
								other++
							case *ast.AssignStmt:
								if len(b.Lhs) == 1 && len(b.Rhs) == 1 && b.Tok == token.ASSIGN && lhsField(b.Lhs[0]) == "FieldData.data" {
									if sl, ok := b.Rhs[0].(*ast.SliceExpr); ok && sl.Low == nil && sl.High != nil && sl.Max == nil &&
										types.ExprString(sl.High) == "0" && types.ExprString(sl.X) == types.ExprString(b.Lhs[0]) {
										resets++
										continue
									}
								}
								other++
							default:
								other++
							}
						}
						if resets == 1 && other == 0 {
							step = "reset-data"
						}
					}
					closeSteps = append(closeSteps, step)
				case *ast.IfStmt:
					closeSteps = append(closeSteps, "if "+types.ExprString(st.Cond))
				default:
					closeSteps = append(closeSteps, fmt.Sprintf("%T", st))
				}
			}
		}
	}
	fmt.Fprintf(&lzb, "/-- top-level statements of `(*DecodeResult).close`, in order -/\ndef lazyCloseSteps : List String := %s\n", leanStrList(closeSteps))
	fmt.Printf("fact F15b close steps %v\n", closeSteps)
	// F17: package-level variables that code of lazyproto MUTATES at run time (anything but the variable's own
	// initialiser): assignments to the variable / an element / a field / through it, ++/--, delete, clear, copy into
	// it, append on it, its address taken, a pointer-receiver method called on it, or — for maps, slices, pointers and
	// channels — the variable handed to another function.  Variables of the sync and sync/atomic packages are
	// synchronised by construction and not listed.  A Decoder is documented as usable from many goroutines and
	// results are per goroutine, so any such variable is state shared by all goroutines without the pool's ordering.
	gwrites := map[string]bool{}
	syncType := func(t types.Type) bool {
		if p, ok := t.(*types.Pointer); ok {
			t = p.Elem()
		}
		if n, ok := t.(*types.Named); ok && n.Obj().Pkg() != nil {
			pp := n.Obj().Pkg().Path()
			return pp == "sync" || pp == "sync/atomic"
		}
		return false
	}
	var globalRoot func(e ast.Expr) *types.Var
	globalRoot = func(e ast.Expr) *types.Var {
		switch e := e.(type) {
		case *ast.Ident:
			if v, ok := lz.info.Uses[e].(*types.Var); ok && v.Pkg() != nil && v.Parent() == v.Pkg().Scope() {
				return v
			}
		case *ast.ParenExpr:
			return globalRoot(e.X)
		case *ast.IndexExpr:
			return globalRoot(e.X)
		case *ast.SliceExpr:
			return globalRoot(e.X)
		case *ast.StarExpr:
			return globalRoot(e.X)
		case *ast.SelectorExpr:
			if x, ok := e.X.(*ast.Ident); ok {
				if _, isPkg := lz.info.Uses[x].(*types.PkgName); isPkg {
					if v, ok := lz.info.Uses[e.Sel].(*types.Var); ok && v.Pkg() != nil && v.Parent() == v.Pkg().Scope() {
						return v // a package-level variable of another package
					}
					return nil
				}
			}
			return globalRoot(e.X)
		}
		return nil
	}
	gname := func(v *types.Var) string {
		if lz.pkg != nil && v.Pkg() == lz.pkg {
			return v.Name()
		}
		return v.Pkg().Path() + "." + v.Name()
	}
	noteGlobal := func(e ast.Expr, fname, kind string) {
		if v := globalRoot(e); v != nil && !syncType(v.Type()) {
			gwrites[gname(v)+"\x00"+fname+"\x00"+kind] = true
		}
	}
	scanGlobals := func(body ast.Node, fname string) {
		ast.Inspect(body, func(n ast.Node) bool {
			switch st := n.(type) {
			case *ast.AssignStmt:
				if st.Tok != token.DEFINE {
					for _, l := range st.Lhs {
						noteGlobal(l, fname, "assign")
					}
				}
			case *ast.IncDecStmt:
				noteGlobal(st.X, fname, "assign")
			case *ast.RangeStmt:
				if st.Tok == token.ASSIGN {
					if st.Key != nil {
						noteGlobal(st.Key, fname, "assign")
					}
					if st.Value != nil {
						noteGlobal(st.Value, fname, "assign")
					}
				}
			case *ast.UnaryExpr:
				if st.Op == token.AND {
					noteGlobal(st.X, fname, "address-taken")
				}
			case *ast.CallExpr:
				if id, ok := st.Fun.(*ast.Ident); ok {
					if _, isBuiltin := lz.info.Uses[id].(*types.Builtin); isBuiltin && len(st.Args) > 0 {
						switch id.Name {
						case "delete", "clear", "copy", "append":
							noteGlobal(st.Args[0], fname, id.Name)
						}
						return true
					}
				}
				if sel, ok := st.Fun.(*ast.SelectorExpr); ok {
					if fn, ok := lz.info.Uses[sel.Sel].(*types.Func); ok {
						if sig, ok := fn.Type().(*types.Signature); ok && sig.Recv() != nil {
							if _, ptr := sig.Recv().Type().(*types.Pointer); ptr {
								noteGlobal(sel.X, fname, "pointer-method:"+sel.Sel.Name)
							}
						}
					}
				}
				for _, a := range st.Args {
					if v := globalRoot(a); v != nil {
						if tv, ok := lz.info.Types[a]; ok && tv.Type != nil {
							switch tv.Type.Underlying().(type) {
							case *types.Map, *types.Slice, *types.Pointer, *types.Chan:
								noteGlobal(a, fname, "passed-to:"+callName(st))
							}
						}
					}
				}
			}
			return true
		})
	}
	for _, f := range lz.files {
		for _, dcl := range f.Decls {
			switch d := dcl.(type) {
			case *ast.FuncDecl:
				if d.Body != nil && d.Name.Name != "init" {
					scanGlobals(d.Body, d.Name.Name)
				}
			case *ast.GenDecl:
				// function literals in initialisers run when they are called, not when the package is initialised
				ast.Inspect(d, func(n ast.Node) bool {
					if fl, ok := n.(*ast.FuncLit); ok {
						scanGlobals(fl.Body, "func-literal-in-declaration")
						return false
					}
					return true
				})
			}
		}
	}
	var grows []string
	for w := range gwrites {
		grows = append(grows, w)
	}
	sort.Strings(grows)
	gtriples := make([]string, len(grows))
	for i, w := range grows {
		parts := strings.SplitN(w, "\x00", 3)
		gtriples[i] = fmt.Sprintf("(%q, %q, %q)", parts[0], parts[1], parts[2])
		fmt.Printf("fact F17 package-level variable %s mutated by %s (%s)\n", parts[0], parts[1], parts[2])
	}
	fmt.Fprintf(&lzb, "/-- (package-level variable, function, how) for every run-time mutation of a package-level variable in lazyproto -/\ndef lazyGlobalWrites : List (String × String × String) := [%s]\n", strings.Join(gtriples, ", "))
	fmt.Printf("fact F17 %d run-time mutations of package-level variables in lazyproto\n", len(grows))
	lzb.WriteString("\nend Csproto.Generated\n")
	writeIfChanged(filepath.Join(*out, "Lazy.lean"), []byte(lzb.String()))
}
