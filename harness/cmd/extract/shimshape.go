package main

// Statement skeletons of the runtime-dispatching functions (clone.go, equal.go, marshal_text.go, extensions.go).
//
// shimCalls / shimAsserts say WHICH runtime functions and descriptor types occur in an arm of a `switch MsgType`.
// They do not say that the arm is nothing but that call: an early return in front of the switch ("same pointer ->
// true"), a second condition next to the type assertion's `ok` ("… || !inDeclaredRange(msg, ed)"), a local helper
// between the assertion and the runtime call all keep those tables unchanged while the function stops being the
// transparent dispatcher the Lean model (`shimEqual`, `shimUnary`, `C12.csHas` …) takes it for.  The skeletons below
// make the whole control shape of those functions a regenerated fact:
//
//   shimFrame : function -> statements outside the arms (the switch itself is one line, `switch <tag>`)
//   shimArms  : (function, case) -> statements of the arm
//
// Expressions are rendered with package aliases resolved to import paths (shortened by the fixed table shortPkg), string literals reduced to "…" (message
// texts are not shape) and local names kept.

import (
	"fmt"
	"go/ast"
	"go/token"
	"go/types"
	"sort"
	"strings"
)

// shortPkg: a fixed short name per import path (decided by the path, not by the alias the source happens to use),
// so that the skeleton lines stay short enough for the Lean kernel to compare
func shortPkg(path string) string {
	switch path {
	case "github.com/gogo/protobuf/proto":
		return "gogo"
	case "github.com/golang/protobuf/proto":
		return "golang"
	case "google.golang.org/protobuf/proto":
		return "protov2"
	case "google.golang.org/protobuf/internal/impl":
		return "protoimpl"
	}
	if i := strings.LastIndex(path, "/"); i >= 0 {
		return path[i+1:]
	}
	return path
}

var shimShapeFns = []string{"Clone", "Equal", "MarshalText", "RangeExtensions", "HasExtension", "ClearExtension", "GetExtension", "SetExtension", "ClearAllExtensions"}

func skelExpr(info *types.Info, e ast.Expr) string {
	switch x := e.(type) {
	case nil:
		return ""
	case *ast.Ident:
		return x.Name
	case *ast.BasicLit:
		if x.Kind == token.STRING {
			return "\"…\""
		}
		return x.Value
	case *ast.ParenExpr:
		return "(" + skelExpr(info, x.X) + ")"
	case *ast.UnaryExpr:
		return x.Op.String() + skelExpr(info, x.X)
	case *ast.StarExpr:
		return "*" + skelExpr(info, x.X)
	case *ast.BinaryExpr:
		return skelExpr(info, x.X) + " " + x.Op.String() + " " + skelExpr(info, x.Y)
	case *ast.SelectorExpr:
		if id, ok := x.X.(*ast.Ident); ok {
			if pn, ok := info.Uses[id].(*types.PkgName); ok {
				return shortPkg(pn.Imported().Path()) + "." + x.Sel.Name
			}
		}
		return skelExpr(info, x.X) + "." + x.Sel.Name
	case *ast.TypeAssertExpr:
		if x.Type == nil {
			return skelExpr(info, x.X) + ".(type)"
		}
		pkg, name := typePkgName(info, x.Type)
		if pkg != "" {
			name = strings.TrimPrefix(name, "*")
			star := ""
			if _, isPtr := x.Type.(*ast.StarExpr); isPtr {
				star = "*"
			}
			return skelExpr(info, x.X) + ".(" + star + shortPkg(pkg) + "." + name + ")"
		}
		return skelExpr(info, x.X) + ".(" + name + ")"
	case *ast.CallExpr:
		var args []string
		for _, a := range x.Args {
			args = append(args, skelExpr(info, a))
		}
		return skelExpr(info, x.Fun) + "(" + strings.Join(args, ", ") + ")"
	case *ast.IndexExpr:
		return skelExpr(info, x.X) + "[" + skelExpr(info, x.Index) + "]"
	case *ast.FuncLit:
		pendingLits = append(pendingLits, x)
		return fmt.Sprintf("func#%d", len(pendingLits))
	case *ast.InterfaceType:
		return "interface{…}"
	case *ast.CompositeLit:
		return "composite " + typePath(info, x.Type)
	}
	return fmt.Sprintf("%T", e)
}

func skelSimple(info *types.Info, st ast.Stmt) string {
	switch x := st.(type) {
	case nil:
		return ""
	case *ast.AssignStmt:
		var l, r []string
		for _, e := range x.Lhs {
			l = append(l, skelExpr(info, e))
		}
		for _, e := range x.Rhs {
			r = append(r, skelExpr(info, e))
		}
		return strings.Join(l, ", ") + " " + x.Tok.String() + " " + strings.Join(r, ", ")
	case *ast.ExprStmt:
		return skelExpr(info, x.X)
	case *ast.IncDecStmt:
		return skelExpr(info, x.X) + x.Tok.String()
	case *ast.DeclStmt:
		if gd, ok := x.Decl.(*ast.GenDecl); ok {
			var parts []string
			for _, sp := range gd.Specs {
				if vs, ok := sp.(*ast.ValueSpec); ok {
					var ns []string
					for _, n := range vs.Names {
						ns = append(ns, n.Name)
					}
					s := "var " + strings.Join(ns, ", ")
					if vs.Type != nil {
						s += " " + typePath(info, vs.Type)
					}
					for i, v := range vs.Values {
						if i == 0 {
							s += " = "
						} else {
							s += ", "
						}
						s += skelExpr(info, v)
					}
					parts = append(parts, s)
				}
			}
			return strings.Join(parts, "; ")
		}
	}
	return fmt.Sprintf("%T", st)
}

// isMsgTypeSwitch: a `switch` whose cases are MessageType… constants
func isMsgTypeSwitch(sw *ast.SwitchStmt) bool {
	for _, c := range sw.Body.List {
		cc := c.(*ast.CaseClause)
		for _, e := range cc.List {
			if id, ok := e.(*ast.Ident); ok && strings.HasPrefix(id.Name, "MessageType") {
				return true
			}
		}
	}
	return false
}

// skelStmts renders a statement list; the arms of a MessageType switch at depth 0 of a frame are left out (they
// are shimArms' business), every other construct is expanded.
func skelStmts(info *types.Info, stmts []ast.Stmt, depth int) []string {
	return skelStmtsOpt(info, stmts, depth, false)
}

// function literals met while rendering a statement; their bodies follow the statement's line, one level deeper
var pendingLits []*ast.FuncLit

func skelStmtsOpt(info *types.Info, stmts []ast.Stmt, depth int, elideArms bool) []string {
	var out []string
	add := func(s string) {
		out = append(out, fmt.Sprintf("%d:%s", depth, s))
		lits := pendingLits
		pendingLits = nil
		for i, fl := range lits {
			out = append(out, fmt.Sprintf("%d:func#%d", depth+1, i+1))
			out = append(out, skelStmtsOpt(info, fl.Body.List, depth+2, false)...)
		}
	}
	for _, st := range stmts {
		switch x := st.(type) {
		case *ast.IfStmt:
			var cur ast.Stmt = x
			first := true
			for cur != nil {
				switch y := cur.(type) {
				case *ast.IfStmt:
					head := "if "
					if !first {
						head = "else if "
					}
					if y.Init != nil {
						head += skelSimple(info, y.Init) + "; "
					}
					add(head + skelExpr(info, y.Cond))
					out = append(out, skelStmtsOpt(info, y.Body.List, depth+1, false)...)
					cur = y.Else
				case *ast.BlockStmt:
					add("else")
					out = append(out, skelStmtsOpt(info, y.List, depth+1, false)...)
					cur = nil
				default:
					cur = nil
				}
				first = false
			}
		case *ast.ReturnStmt:
			var rs []string
			for _, e := range x.Results {
				rs = append(rs, skelExpr(info, e))
			}
			add(strings.TrimSpace("return " + strings.Join(rs, ", ")))
		case *ast.RangeStmt:
			add("for " + skelExpr(info, x.Key) + ", " + skelExpr(info, x.Value) + " range " + skelExpr(info, x.X))
			out = append(out, skelStmtsOpt(info, x.Body.List, depth+1, false)...)
		case *ast.ForStmt:
			add("for " + skelSimple(info, x.Init) + "; " + skelExpr(info, x.Cond) + "; " + skelSimple(info, x.Post))
			out = append(out, skelStmtsOpt(info, x.Body.List, depth+1, false)...)
		case *ast.SwitchStmt:
			head := "switch "
			if x.Init != nil {
				head += skelSimple(info, x.Init) + "; "
			}
			add(head + skelExpr(info, x.Tag))
			if elideArms && isMsgTypeSwitch(x) {
				var cases []string
				for _, c := range x.Body.List {
					cc := c.(*ast.CaseClause)
					if len(cc.List) == 0 {
						cases = append(cases, "default")
					}
					for _, e := range cc.List {
						cases = append(cases, skelExpr(info, e))
					}
				}
				sort.Strings(cases) // the order of the arms is not shape
				out = append(out, fmt.Sprintf("%d:cases %s", depth+1, strings.Join(cases, ",")))
				continue
			}
			for _, c := range x.Body.List {
				cc := c.(*ast.CaseClause)
				var cs []string
				for _, e := range cc.List {
					cs = append(cs, skelExpr(info, e))
				}
				if len(cs) == 0 {
					cs = []string{"default"}
				}
				out = append(out, fmt.Sprintf("%d:case %s", depth+1, strings.Join(cs, ",")))
				out = append(out, skelStmtsOpt(info, cc.Body, depth+2, false)...)
			}
		case *ast.TypeSwitchStmt:
			add("typeswitch " + skelSimple(info, x.Assign))
			for _, c := range x.Body.List {
				cc := c.(*ast.CaseClause)
				var cs []string
				for _, e := range cc.List {
					cs = append(cs, typePath(info, e))
				}
				if len(cs) == 0 {
					cs = []string{"default"}
				}
				out = append(out, fmt.Sprintf("%d:case %s", depth+1, strings.Join(cs, ",")))
				out = append(out, skelStmtsOpt(info, cc.Body, depth+2, false)...)
			}
		case *ast.BlockStmt:
			add("block")
			out = append(out, skelStmtsOpt(info, x.List, depth+1, false)...)
		case *ast.DeferStmt:
			add("defer " + skelExpr(info, x.Call))
		case *ast.GoStmt:
			add("go " + skelExpr(info, x.Call))
		case *ast.BranchStmt:
			add(x.Tok.String())
		case *ast.EmptyStmt:
		default:
			add(skelSimple(info, st))
		}
	}
	return out
}

func writeShimShape(p *pkgInfo, b *strings.Builder) {
	var frames, arms []string
	nArms := 0
	for _, fn := range shimShapeFns {
		fd := p.funcDecl(fn)
		if fd == nil || fd.Body == nil {
			fmt.Printf("missing function %s\n", fn)
			continue
		}
		frames = append(frames, fmt.Sprintf("(%q, %s)", fn, leanStrList(skelStmtsOpt(p.info, fd.Body.List, 0, true))))
		var fnArms []string
		ast.Inspect(fd.Body, func(n ast.Node) bool {
			if _, isLit := n.(*ast.FuncLit); isLit {
				return false
			}
			sw, ok := n.(*ast.SwitchStmt)
			if !ok || !isMsgTypeSwitch(sw) {
				return true
			}
			for _, c := range sw.Body.List {
				cc := c.(*ast.CaseClause)
				name := "default"
				if len(cc.List) > 0 {
					var ns []string
					for _, e := range cc.List {
						ns = append(ns, skelExpr(p.info, e))
					}
					name = strings.Join(ns, ",")
				}
				fnArms = append(fnArms, fmt.Sprintf("(%q, %q, %s)", fn, name, leanStrList(skelStmts(p.info, cc.Body, 0))))
				nArms++
			}
			return false
		})
		sort.Strings(fnArms) // by case name: the order of the arms is not shape
		arms = append(arms, fnArms...)
	}
	fmt.Fprintf(b, "/-- (function, statements outside the arms of its `switch MsgType`): the whole control shape around the dispatch -/\ndef shimFrame : List (String × List String) := [%s]\n\n", strings.Join(frames, ",\n  "))
	fmt.Fprintf(b, "/-- (function, MessageType case, statements of the arm) -/\ndef shimArms : List (String × String × List String) := [%s]\n\n", strings.Join(arms, ",\n  "))
	fmt.Printf("fact F6 statement skeletons of %d dispatching functions, %d arms\n", len(frames), nArms)
}
