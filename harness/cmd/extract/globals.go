package main

import (
	"go/ast"
	"go/parser"
	"go/token"
	"os"
	"sort"
	"strings"
)

// packageGlobalsWritten: the package-level variables of a Go package that some function body writes to
// (assignment to the variable, to an element / field of it, ++/--, delete(x, …), &x).
func packageGlobalsWritten(dir string) ([]string, error) {
	fset := token.NewFileSet()
	pkgs, err := parser.ParseDir(fset, dir, func(fi os.FileInfo) bool { return !strings.HasSuffix(fi.Name(), "_test.go") }, 0)
	if err != nil {
		return nil, err
	}
	written := map[string]bool{}
	for _, pkg := range pkgs {
		top := map[string]bool{}
		topSpec := map[*ast.ValueSpec]bool{}
		for _, f := range pkg.Files {
			for _, d := range f.Decls {
				if gd, ok := d.(*ast.GenDecl); ok && gd.Tok == token.VAR {
					for _, sp := range gd.Specs {
						vs := sp.(*ast.ValueSpec)
						topSpec[vs] = true
						for _, n := range vs.Names {
							top[n.Name] = true
						}
					}
				}
			}
		}
		// root identifier of an lvalue-ish expression
		var root func(e ast.Expr) *ast.Ident
		root = func(e ast.Expr) *ast.Ident {
			switch x := e.(type) {
			case *ast.Ident:
				return x
			case *ast.IndexExpr:
				return root(x.X)
			case *ast.SelectorExpr:
				return root(x.X)
			case *ast.StarExpr:
				return root(x.X)
			case *ast.ParenExpr:
				return root(x.X)
			case *ast.SliceExpr:
				return root(x.X)
			}
			return nil
		}
		isGlobal := func(id *ast.Ident) bool {
			if id == nil || !top[id.Name] {
				return false
			}
			if id.Obj == nil {
				return true // declared in another file of the package
			}
			vs, ok := id.Obj.Decl.(*ast.ValueSpec)
			return ok && topSpec[vs]
		}
		mark := func(e ast.Expr) {
			if id := root(e); isGlobal(id) {
				written[id.Name] = true
			}
		}
		for _, f := range pkg.Files {
			ast.Inspect(f, func(n ast.Node) bool {
				switch x := n.(type) {
				case *ast.AssignStmt:
					if x.Tok != token.DEFINE {
						for _, l := range x.Lhs {
							mark(l)
						}
					}
				case *ast.IncDecStmt:
					mark(x.X)
				case *ast.RangeStmt:
					if x.Tok == token.ASSIGN {
						mark(x.Key)
						if x.Value != nil {
							mark(x.Value)
						}
					}
				case *ast.UnaryExpr:
					if x.Op == token.AND {
						mark(x.X)
					}
				case *ast.CallExpr:
					if fn, ok := x.Fun.(*ast.Ident); ok && (fn.Name == "delete" || fn.Name == "clear") && len(x.Args) > 0 {
						mark(x.Args[0])
					}
					// methods that modify their receiver (sync.Map, sync.Once, atomic values, mutexes guarding state)
					if sel, ok := x.Fun.(*ast.SelectorExpr); ok {
						switch sel.Sel.Name {
						case "Store", "LoadOrStore", "LoadAndDelete", "Delete", "Swap", "CompareAndSwap", "Add", "Lock", "Do", "Put", "Set":
							mark(sel.X)
						}
					}
				}
				return true
			})
		}
	}
	var out []string
	for n := range written {
		out = append(out, n)
	}
	sort.Strings(out)
	return out, nil
}
