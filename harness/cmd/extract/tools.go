package main

// Facts about the diagnostic tools (C20): cmd/protodump and prototest.ParseAnnotatedHex.
//
//   - protodumpStructFields / protodumpFieldWrites: the struct types of cmd/protodump and every write to one
//     of their fields with the enclosing function. The model takes path matching to be a function of the
//     configured paths and the path asked about (`pathsMatch`), i.e. nothing is remembered between fields:
//     `tagPaths.paths` is written by `Set` only, nothing else of `tagPaths` is written at all.
//   - protodumpGlobals: package-level variables (state that outlives a field).
//   - dumpInputFlow: what reaches `csproto.NewDecoder` in `dumpProtoFile`: every value assigned to the
//     variable that is passed to it. The model dumps the bytes that were read, whatever they look like.
//   - hexCalls: the library calls `ParseAnnotatedHex` is made of (the model mirrors strings.Split / Index /
//     Map, unicode.IsSpace and hex.DecodeString and trusts nothing else).

import (
	"fmt"
	"go/ast"
	"go/token"
	"go/types"
	"os"
	"path/filepath"
	"sort"
	"strings"
)

func writeToolFacts(repo, outPath string) {
	pd, err := load(filepath.Join(repo, "cmd/protodump"))
	if err != nil {
		fmt.Println("parse error:", err)
		os.Exit(1)
	}
	curInfo = pd.info
	var b strings.Builder
	b.WriteString("/- REGENERATED on every run by harness/cmd/extract from /repo's Go source. Do not edit. -/\nnamespace Csproto.Generated\n\n")

	// struct types and their fields; package-level variables
	structs := map[string]bool{}
	var fieldRows, globals []string
	for _, f := range pd.files {
		for _, dcl := range f.Decls {
			gd, ok := dcl.(*ast.GenDecl)
			if !ok {
				continue
			}
			for _, sp := range gd.Specs {
				switch sp := sp.(type) {
				case *ast.TypeSpec:
					if st, ok := sp.Type.(*ast.StructType); ok {
						structs[sp.Name.Name] = true
						var names []string
						for _, fl := range st.Fields.List {
							if len(fl.Names) == 0 {
								names = append(names, "(embedded "+exprString(fl.Type)+")")
							}
							for _, n := range fl.Names {
								names = append(names, n.Name)
							}
						}
						fieldRows = append(fieldRows, sp.Name.Name+": "+strings.Join(names, " "))
					}
				case *ast.ValueSpec:
					if gd.Tok == token.VAR {
						for _, n := range sp.Names {
							globals = append(globals, n.Name)
						}
					}
				}
			}
		}
	}
	sort.Strings(fieldRows)
	sort.Strings(globals)
	fmt.Fprintf(&b, "def protodumpStructFields : List String := %s\n", leanStrList(fieldRows))
	fmt.Fprintf(&b, "def protodumpGlobals : List String := %s\n", leanStrList(globals))
	fmt.Printf("fact F17 protodump structs %v globals %v\n", fieldRows, globals)

	// writes to fields of those structs
	namedOf := func(e ast.Expr) string {
		tv, ok := pd.info.Types[e]
		if !ok || tv.Type == nil {
			return ""
		}
		t := tv.Type
		if p, ok := t.(*types.Pointer); ok {
			t = p.Elem()
		}
		if n, ok := t.(*types.Named); ok {
			return n.Obj().Name()
		}
		return ""
	}
	var lhsField func(e ast.Expr) string
	lhsField = func(e ast.Expr) string {
		switch e := e.(type) {
		case *ast.ParenExpr:
			return lhsField(e.X)
		case *ast.SelectorExpr:
			if n := namedOf(e.X); structs[n] {
				return n + "." + e.Sel.Name
			}
		case *ast.IndexExpr:
			if f := lhsField(e.X); f != "" {
				return f + "[]"
			}
		case *ast.StarExpr:
			return lhsField(e.X)
		}
		return ""
	}
	writes := map[string]bool{}
	for _, f := range pd.files {
		for _, dcl := range f.Decls {
			fd, ok := dcl.(*ast.FuncDecl)
			if !ok || fd.Body == nil {
				continue
			}
			fname := fd.Name.Name
			ast.Inspect(fd.Body, func(n ast.Node) bool {
				switch st := n.(type) {
				case *ast.AssignStmt:
					for _, l := range st.Lhs {
						if fl := lhsField(l); fl != "" {
							writes[fl+"<-"+fname] = true
						}
					}
				case *ast.IncDecStmt:
					if fl := lhsField(st.X); fl != "" {
						writes[fl+"<-"+fname] = true
					}
				case *ast.UnaryExpr:
					// &x.f handed to somebody is as good as a write
					if st.Op == token.AND {
						if fl := lhsField(st.X); fl != "" {
							writes[fl+"<-"+fname+"(address taken)"] = true
						}
					}
				case *ast.CompositeLit:
					if n := namedOf(st); structs[n] {
						for _, el := range st.Elts {
							if kv, ok := el.(*ast.KeyValueExpr); ok {
								if id, ok := kv.Key.(*ast.Ident); ok {
									writes[n+"."+id.Name+"<-"+fname+"(literal)"] = true
								}
							}
						}
					}
				}
				return true
			})
		}
	}
	var wrows []string
	for w := range writes {
		wrows = append(wrows, w)
	}
	sort.Strings(wrows)
	pairs := make([]string, len(wrows))
	for i, w := range wrows {
		parts := strings.SplitN(w, "<-", 2)
		pairs[i] = fmt.Sprintf("(%q, %q)", parts[0], parts[1])
	}
	fmt.Fprintf(&b, "def protodumpFieldWrites : List (String × String) := [%s]\n", strings.Join(pairs, ", "))
	fmt.Printf("fact F17 protodump field writes %v\n", wrows)

	// what reaches csproto.NewDecoder in dumpProtoFile
	var flow []string
	if fd := pd.funcDecl("dumpProtoFile"); fd != nil {
		var arg ast.Expr
		ast.Inspect(fd.Body, func(n ast.Node) bool {
			if ce, ok := n.(*ast.CallExpr); ok && callName(ce) == "csproto.NewDecoder" && len(ce.Args) == 1 && arg == nil {
				arg = ce.Args[0]
			}
			return true
		})
		if id, ok := arg.(*ast.Ident); ok {
			ast.Inspect(fd.Body, func(n ast.Node) bool {
				if as, ok := n.(*ast.AssignStmt); ok {
					for i, l := range as.Lhs {
						if li, ok := l.(*ast.Ident); ok && li.Name == id.Name {
							rhs := as.Rhs[0]
							if len(as.Rhs) == len(as.Lhs) {
								rhs = as.Rhs[i]
							}
							flow = append(flow, exprString(rhs))
						}
					}
				}
				return true
			})
		} else if arg != nil {
			flow = append(flow, exprString(arg))
		}
	}
	if len(flow) == 0 {
		flow = []string{"(no csproto.NewDecoder call found in dumpProtoFile)"}
	}
	fmt.Fprintf(&b, "def dumpInputFlow : List String := %s\n", leanStrList(flow))
	fmt.Printf("fact F17 dumpProtoFile decodes %v\n", flow)

	// ParseAnnotatedHex
	pt, err := load(filepath.Join(repo, "prototest"))
	if err != nil {
		fmt.Println("parse error:", err)
		os.Exit(1)
	}
	curInfo = pt.info
	calls := map[string]bool{}
	if fd := pt.funcDecl("ParseAnnotatedHex"); fd != nil {
		ast.Inspect(fd.Body, func(n ast.Node) bool {
			if ce, ok := n.(*ast.CallExpr); ok {
				if name := callName(ce); name != "" {
					calls[name] = true
				}
			}
			return true
		})
	} else {
		calls["(function ParseAnnotatedHex not found)"] = true
	}
	var crow []string
	for cname := range calls {
		crow = append(crow, cname)
	}
	sort.Strings(crow)
	fmt.Fprintf(&b, "def hexCalls : List String := %s\n", leanStrList(crow))
	fmt.Printf("fact F17 ParseAnnotatedHex calls %v\n", crow)
	b.WriteString("\nend Csproto.Generated\n")
	writeIfChanged(outPath, []byte(b.String()))
}
