// racecheck9: many goroutines call Size / Marshal on messages nobody mutates (built with -race by the
// C09 check). Every result must equal the bytes computed once up front; the race detector reports the rest.
package main

import (
	"bytes"
	"fmt"
	"os"
	"runtime"
	"sync"

	"github.com/CrowdStrike/csproto"
	p2gogo "github.com/CrowdStrike/csproto/example/proto2/gogo"
	p2v1 "github.com/CrowdStrike/csproto/example/proto2/googlev1"
	p2v2 "github.com/CrowdStrike/csproto/example/proto2/googlev2"
	p3v2 "github.com/CrowdStrike/csproto/example/proto3/googlev2"
	gogoproto "github.com/gogo/protobuf/proto"
	v1proto "github.com/golang/protobuf/proto"
	"google.golang.org/protobuf/proto"
	"google.golang.org/protobuf/types/known/structpb"
	"google.golang.org/protobuf/types/known/timestamppb"
)

type sizer interface{ Size() int }
type marshaler interface{ Marshal() ([]byte, error) }

func messages() map[string]interface{} {
	out := map[string]interface{}{}
	// proto2 messages carrying an extension: the generated code goes through csproto.HasExtension / GetExtension
	{
		et := p2gogo.EventType_EVENT_TYPE_ONE
		base := &p2gogo.BaseEvent{EventID: gogoproto.String("e"), SourceID: gogoproto.String("s"), Timestamp: gogoproto.Uint64(7), EventType: &et, Data: []byte{1, 2}}
		ext := &p2gogo.TestEvent{Name: gogoproto.String("n"), Info: gogoproto.String(""), Labels: []string{"a", "b"},
			Embedded: &p2gogo.EmbeddedEvent{ID: gogoproto.Int32(42), Stuff: gogoproto.String("x"), FavoriteNumbers: []int32{1, -1}}, Path: &p2gogo.TestEvent_Jedi{Jedi: true}}
		_ = gogoproto.SetExtension(base, p2gogo.E_TestEvent_EventExt, ext)
		out["proto2/gogo BaseEvent+ext"] = base
	}
	{
		et := p2v1.EventType_EVENT_TYPE_ONE
		base := &p2v1.BaseEvent{EventID: v1proto.String("e"), SourceID: v1proto.String("s"), Timestamp: v1proto.Uint64(7), EventType: &et, Data: []byte{1, 2}}
		ext := &p2v1.TestEvent{Name: v1proto.String("n"), Info: v1proto.String(""), Labels: []string{"a", "b"},
			Embedded: &p2v1.EmbeddedEvent{ID: v1proto.Int32(42), Stuff: v1proto.String("x"), FavoriteNumbers: []int32{1, -1}}, Path: &p2v1.TestEvent_Jedi{Jedi: true}}
		_ = v1proto.SetExtension(base, p2v1.E_TestEvent_EventExt, ext)
		out["proto2/googlev1 BaseEvent+ext"] = base
	}
	{
		et := p2v2.EventType_EVENT_TYPE_ONE
		base := &p2v2.BaseEvent{EventID: proto.String("e"), SourceID: proto.String("s"), Timestamp: proto.Uint64(7), EventType: &et, Data: []byte{1, 2}}
		ext := &p2v2.TestEvent{Name: proto.String("n"), Info: proto.String(""), Labels: []string{"a", "b"},
			Embedded: &p2v2.EmbeddedEvent{ID: proto.Int32(42), Stuff: proto.String("x"), FavoriteNumbers: []int32{1, -1}}, Path: &p2v2.TestEvent_Jedi{Jedi: true}}
		proto.SetExtension(base, p2v2.E_TestEvent_EventExt, ext)
		out["proto2/googlev2 BaseEvent+ext"] = base
	}
	// proto3: scalars, a nested message, maps
	out["proto3/googlev2 AllTheThings"] = &p3v2.AllTheThings{ID: 1, TheString: "s", TheBool: true, TheInt32: -5, TheSInt64: -9, TheFloat: 1.5, TheBytes: []byte{9},
		TheMessage: &p3v2.EmbeddedEvent{ID: 2, Stuff: "y", FavoriteNumbers: []int32{3, 4}}}
	out["proto3/googlev2 RepeatAllTheThings"] = &p3v2.RepeatAllTheThings{ID: 1, TheStrings: []string{"a", ""}, TheInt32S: []int32{-1, 2}, TheFixed32S: make([]uint32, 40), TheDoubles: []float64{1, 2}}
	// messages without generated fast-marshal methods: the runtime fallback (memoised sizes live there)
	st, _ := structpb.NewStruct(map[string]interface{}{"b": map[string]interface{}{"c": []interface{}{"d", 1.0, true}}}) // one key per level: map order is not deterministic
	out["google.protobuf.Struct"] = st
	out["google.protobuf.Timestamp"] = &timestamppb.Timestamp{Seconds: 5, Nanos: 7}
	return out
}

func main() {
	goroutines, iters := 8, 400
	if len(os.Args) > 2 {
		fmt.Sscan(os.Args[1], &goroutines)
		fmt.Sscan(os.Args[2], &iters)
	}
	runtime.GOMAXPROCS(goroutines)
	bad := 0
	var mu sync.Mutex
	report := func(format string, a ...interface{}) {
		mu.Lock()
		bad++
		if bad <= 5 {
			fmt.Printf("MISMATCH "+format+"\n", a...)
		}
		mu.Unlock()
	}
	msgs := messages()
	want := map[string][]byte{}
	for name, m := range msgs {
		b, err := csproto.Marshal(m)
		if err != nil {
			fmt.Printf("SETUP-ERROR %s: %v\n", name, err)
			os.Exit(3)
		}
		want[name] = b
	}
	var wg sync.WaitGroup
	for g := 0; g < goroutines; g++ {
		wg.Add(1)
		go func(g int) {
			defer wg.Done()
			defer func() {
				if x := recover(); x != nil {
					report("goroutine %d panicked: %v", g, x)
				}
			}()
			for i := 0; i < iters; i++ {
				for name, m := range msgs {
					if (i+g)%2 == 0 {
						if sz := csproto.Size(m); sz != len(want[name]) {
							report("%s: csproto.Size = %d, want %d", name, sz, len(want[name]))
						}
					}
					b, err := csproto.Marshal(m)
					if err != nil || !bytes.Equal(b, want[name]) {
						report("%s: csproto.Marshal = %x err=%v, want %x", name, b, err, want[name])
					}
					if fm, ok := m.(marshaler); ok && (i+g)%3 == 0 {
						if s, ok := m.(sizer); ok {
							if sz := s.Size(); sz != len(want[name]) {
								report("%s: Size() = %d, want %d", name, sz, len(want[name]))
							}
						}
						if b, err := fm.Marshal(); err != nil || !bytes.Equal(b, want[name]) {
							report("%s: Marshal() = %x err=%v, want %x", name, b, err, want[name])
						}
					}
				}
			}
		}(g)
	}
	wg.Wait()
	if bad > 0 {
		fmt.Printf("MISMATCHES %d\n", bad)
		os.Exit(2)
	}
	fmt.Println("OK")
}
