// regen re-runs protoc-gen-fastmarshal (built from /repo's working tree) over the example .proto files
// exactly as /repo/Makefile does, without protoc: the FileDescriptorProtos are taken from the compiled
// example packages. With --check it only reports files whose checked-in content differs.
package main

import (
	"bytes"
	"compress/gzip"
	"flag"
	"fmt"
	"io"
	"os"
	"path/filepath"
	"sort"
	"strings"

	gogoproto "github.com/gogo/protobuf/proto"
	"google.golang.org/protobuf/proto"
	"google.golang.org/protobuf/reflect/protodesc"
	"google.golang.org/protobuf/reflect/protoregistry"
	"google.golang.org/protobuf/types/descriptorpb"
	"google.golang.org/protobuf/types/pluginpb"

	"csverif/internal/genpipe"

	_ "github.com/CrowdStrike/csproto/example/permessage/gogo"
	_ "github.com/CrowdStrike/csproto/example/permessage/googlev1"
	_ "github.com/CrowdStrike/csproto/example/permessage/googlev2"
	_ "github.com/CrowdStrike/csproto/example/proto2/gogo"
	_ "github.com/CrowdStrike/csproto/example/proto2/googlev1"
	_ "github.com/CrowdStrike/csproto/example/proto2/googlev2"
	_ "github.com/CrowdStrike/csproto/example/proto3/gogo"
	_ "github.com/CrowdStrike/csproto/example/proto3/googlev1"
	_ "github.com/CrowdStrike/csproto/example/proto3/googlev2"
	_ "google.golang.org/protobuf/types/known/structpb"
	_ "google.golang.org/protobuf/types/known/timestamppb"
)

const wkt = ",Mgoogle/protobuf/any.proto=github.com/gogo/protobuf/types;types,Mgoogle/protobuf/duration.proto=github.com/gogo/protobuf/types;types,Mgoogle/protobuf/struct.proto=github.com/gogo/protobuf/types;types,Mgoogle/protobuf/timestamp.proto=github.com/gogo/protobuf/types;types,Mgoogle/protobuf/wrappers.proto=github.com/gogo/protobuf/types;types"

type target struct {
	dir, file, param string
	gogo             bool
}

var targets = []target{
	{"proto2/gogo", "gogo_proto2_example.proto", "paths=source_relative" + wkt + ",specialname=Size", true},
	{"proto3/gogo", "gogo_proto3_example.proto", "paths=source_relative" + wkt, true},
	{"proto2/googlev1", "googlev1_proto2_example.proto", "apiversion=v2,paths=source_relative", false},
	{"proto3/googlev1", "googlev1_proto3_example.proto", "apiversion=v2,paths=source_relative", false},
	{"proto2/googlev2", "googlev2_proto2_example.proto", "apiversion=v2,paths=source_relative", false},
	{"proto3/googlev2", "googlev2_proto3_example.proto", "apiversion=v2,paths=source_relative", false},
	{"permessage/gogo", "gogo_permessage_example.proto", "filepermessage=true,paths=source_relative" + wkt + ",specialname=Size", true},
	{"permessage/googlev1", "googlev1_permessage_example.proto", "apiversion=v2,filepermessage=true,paths=source_relative", false},
	{"permessage/googlev2", "googlev2_permessage_example.proto", "apiversion=v2,filepermessage=true,paths=source_relative", false},
}

func fileProto(t target) (*descriptorpb.FileDescriptorProto, error) {
	if t.gogo {
		gz := gogoproto.FileDescriptor(t.file)
		if gz == nil {
			return nil, fmt.Errorf("%s is not registered with gogo", t.file)
		}
		r, err := gzip.NewReader(bytes.NewReader(gz))
		if err != nil {
			return nil, err
		}
		raw, err := io.ReadAll(r)
		if err != nil {
			return nil, err
		}
		fd := &descriptorpb.FileDescriptorProto{}
		return fd, proto.Unmarshal(raw, fd)
	}
	d, err := protoregistry.GlobalFiles.FindFileByPath(t.file)
	if err != nil {
		return nil, err
	}
	return protodesc.ToFileDescriptorProto(d), nil
}

func deps(fd *descriptorpb.FileDescriptorProto) []*descriptorpb.FileDescriptorProto {
	var out []*descriptorpb.FileDescriptorProto
	seen := map[string]bool{}
	var add func(string)
	add = func(p string) {
		if seen[p] {
			return
		}
		seen[p] = true
		d, err := protoregistry.GlobalFiles.FindFileByPath(p)
		if err != nil {
			panic(err)
		}
		for i := 0; i < d.Imports().Len(); i++ {
			add(d.Imports().Get(i).Path())
		}
		out = append(out, protodesc.ToFileDescriptorProto(d))
	}
	for _, p := range fd.Dependency {
		add(p)
	}
	return out
}

func main() {
	check := flag.Bool("check", false, "report differences instead of writing")
	plugin := flag.String("plugin", "", "protoc-gen-fastmarshal binary (default: build from /repo)")
	root := flag.String("root", "/repo/example", "example directory")
	flag.Parse()
	bin := *plugin
	if bin == "" {
		pl, err := genpipe.BuildPlugins("/verif/.cache/bin")
		if err != nil {
			fmt.Println("regen:", err)
			os.Exit(2)
		}
		bin = pl.FastMarshal
	}
	differ := 0
	for _, t := range targets {
		fd, err := fileProto(t)
		if err != nil {
			fmt.Println("regen:", t.dir, err)
			os.Exit(2)
		}
		req := &pluginpb.CodeGeneratorRequest{FileToGenerate: []string{t.file}, Parameter: proto.String(t.param),
			ProtoFile: append(deps(fd), fd), CompilerVersion: &pluginpb.Version{Major: proto.Int32(5), Minor: proto.Int32(28), Patch: proto.Int32(3)}}
		resp, err := genpipe.RunPlugin(bin, req)
		if err != nil {
			fmt.Println("regen:", t.dir, err)
			os.Exit(2)
		}
		if resp.Error != nil {
			fmt.Println("regen:", t.dir, "plug-in error:", resp.GetError())
			os.Exit(2)
		}
		dir := filepath.Join(*root, t.dir)
		got := map[string]string{}
		for _, f := range resp.File {
			got[f.GetName()] = f.GetContent()
		}
		old, _ := filepath.Glob(filepath.Join(dir, "*.pb.fm.go"))
		var names []string
		for n := range got {
			names = append(names, n)
		}
		sort.Strings(names)
		for _, o := range old {
			if _, ok := got[filepath.Base(o)]; !ok {
				fmt.Printf("%s: checked-in file %s is no longer generated\n", t.dir, filepath.Base(o))
				differ++
				if !*check {
					os.Remove(o)
				}
			}
		}
		for _, n := range names {
			path := filepath.Join(dir, n)
			cur, _ := os.ReadFile(path)
			if string(cur) == got[n] {
				continue
			}
			differ++
			if *check {
				fmt.Printf("%s: %s differs from the generator's output\n", t.dir, n)
				continue
			}
			if err := os.WriteFile(path, []byte(got[n]), 0o644); err != nil {
				fmt.Println("regen:", err)
				os.Exit(2)
			}
			fmt.Printf("%s: wrote %s\n", t.dir, n)
		}
	}
	if *check && differ > 0 {
		os.Exit(1)
	}
	_ = strings.TrimSpace
}
