// racecheck: many goroutines share one lazyproto.Decoder (built with -race by the C15 check).
//
// Every goroutine decodes its own inputs, reads values and closes; what it observes through the SHARED decoder is
// compared with what a private decoder of its own produced for the same bytes.  Exit status 0 = all equal and the
// race detector stayed silent (it exits with status 66 on a report).
//
// What a goroutine does is what the API allows a client to do, not only the straight "decode, read, close":
//
//   - cold start: all goroutines are released by one barrier and the very first thing each of them does (it also
//     builds its private Decoder only then) is a full sweep: every one of the 26 typed accessors on every tag —
//     declared and present with each wire type, declared and absent, undeclared — on the root result and on a
//     nested result, NestedResult on a damaged sub-message, a malformed input.  Error paths (wire-type mismatch
//     with one and with two supported types, overflow, not-found, not-defined, nesting-not-defined, truncated
//     data) are therefore taken concurrently from the first operations of the process on, which is when lazily
//     initialised package-level state would be written;
//   - later iterations repeat that sweep on two random tags, plus fixed reads of every kind of value;
//   - in safe mode every value handed out (byte slices, strings, typed slices, of root and nested results) is
//     KEPT after Close and looked at again after the goroutine — and all the others — have decoded further
//     messages with the recycled results; afterwards the goroutine overwrites the byte slices it was given
//     (they are its own copies) and, now and then, its input slice right after Decode returned;
//   - now and then a result is kept OPEN while the next message is decoded and read (two results of one
//     Decoder alive in one goroutine), read again, and only then closed.
package main

import (
	"flag"
	"fmt"
	"math"
	"os"
	"runtime"
	"strconv"
	"sync"

	"github.com/CrowdStrike/csproto"
	"github.com/CrowdStrike/csproto/lazyproto"
	"google.golang.org/protobuf/encoding/protowire"
)

type rng struct{ s uint64 }

func (r *rng) u64() uint64 {
	r.s += 0x9E3779B97F4A7C15
	z := r.s
	z = (z ^ (z >> 30)) * 0xBF58476D1CE4E5B9
	z = (z ^ (z >> 27)) * 0x94D049BB133111EB
	return z ^ (z >> 31)
}
func (r *rng) intn(n int) int { return int(r.u64() % uint64(n)) }

func (r *rng) bytes(n int) []byte {
	b := make([]byte, n)
	for i := range b {
		b[i] = byte(r.u64())
	}
	return b
}

// message:
//
//	1 varint (repeated)            2 string                         3 nested (repeated) { 1 varint (repeated), 2 bytes,
//	4 packed fixed32               5 bytes (repeated)                  3 fixed64 (repeated), 4 string (repeated),
//	                                                                   5 nested (repeated) { 1 varint (repeated), 2 bytes,
//	                                                                     3 nested { 1 varint (repeated) } } }
//	6 fixed64 (repeated, unpacked) 7 fixed32 (repeated, unpacked)   8 packed varint
//	9 declared, never present      10 nested { 1 varint }, sometimes damaged
//	12 present, not declared
func genMsg(r *rng) []byte {
	var b []byte
	for i := r.intn(4); i > 0; i-- {
		b = protowire.AppendTag(b, 1, protowire.VarintType)
		b = protowire.AppendVarint(b, r.u64()>>uint(r.intn(64)))
	}
	if r.intn(4) > 0 {
		b = protowire.AppendTag(b, 2, protowire.BytesType)
		b = protowire.AppendString(b, fmt.Sprintf("s%d", r.u64()%100000))
	}
	for i := r.intn(4); i > 0; i-- {
		var in []byte
		for j := r.intn(3); j > 0; j-- {
			in = protowire.AppendTag(in, 1, protowire.VarintType)
			in = protowire.AppendVarint(in, r.u64()>>uint(r.intn(64)))
		}
		in = protowire.AppendTag(in, 2, protowire.BytesType)
		in = protowire.AppendBytes(in, r.bytes(2+r.intn(9)))
		for j := r.intn(3); j > 0; j-- {
			in = protowire.AppendTag(in, 3, protowire.Fixed64Type)
			in = protowire.AppendFixed64(in, r.u64())
		}
		for j := r.intn(3); j > 0; j-- {
			in = protowire.AppendTag(in, 4, protowire.BytesType)
			in = protowire.AppendString(in, fmt.Sprintf("n%d", r.u64()%1000000))
		}
		// a third and a fourth message level: 3 -> 5 -> 3
		for j := r.intn(3); j > 0; j-- {
			var in2 []byte
			for k := r.intn(3); k > 0; k-- {
				in2 = protowire.AppendTag(in2, 1, protowire.VarintType)
				in2 = protowire.AppendVarint(in2, r.u64()>>uint(r.intn(64)))
			}
			if r.intn(3) > 0 {
				in2 = protowire.AppendTag(in2, 2, protowire.BytesType)
				in2 = protowire.AppendBytes(in2, r.bytes(1+r.intn(9)))
			}
			if r.intn(2) > 0 {
				var in3 []byte
				for k := 1 + r.intn(3); k > 0; k-- {
					in3 = protowire.AppendTag(in3, 1, protowire.VarintType)
					in3 = protowire.AppendVarint(in3, r.u64()>>uint(r.intn(64)))
				}
				in2 = protowire.AppendTag(in2, 3, protowire.BytesType)
				in2 = protowire.AppendBytes(in2, in3)
			}
			in = protowire.AppendTag(in, 5, protowire.BytesType)
			in = protowire.AppendBytes(in, in2)
		}
		b = protowire.AppendTag(b, 3, protowire.BytesType)
		b = protowire.AppendBytes(b, in)
	}
	var p []byte
	for i := r.intn(5); i > 0; i-- {
		p = protowire.AppendFixed32(p, uint32(r.u64()))
	}
	b = protowire.AppendTag(b, 4, protowire.BytesType)
	b = protowire.AppendBytes(b, p)
	for i := r.intn(3); i > 0; i-- {
		b = protowire.AppendTag(b, 5, protowire.BytesType)
		b = protowire.AppendBytes(b, r.bytes(1+r.intn(24)))
	}
	for i := r.intn(3); i > 0; i-- {
		b = protowire.AppendTag(b, 6, protowire.Fixed64Type)
		b = protowire.AppendFixed64(b, r.u64())
	}
	for i := r.intn(3); i > 0; i-- {
		b = protowire.AppendTag(b, 7, protowire.Fixed32Type)
		b = protowire.AppendFixed32(b, uint32(r.u64()))
	}
	if r.intn(2) > 0 {
		var pv []byte
		for i := r.intn(4); i > 0; i-- {
			pv = protowire.AppendVarint(pv, r.u64()>>uint(r.intn(64)))
		}
		b = protowire.AppendTag(b, 8, protowire.BytesType)
		b = protowire.AppendBytes(b, pv)
	}
	if r.intn(2) > 0 {
		in := protowire.AppendVarint(protowire.AppendTag(nil, 1, protowire.VarintType), r.u64()>>uint(r.intn(64)))
		if r.intn(6) == 0 {
			in = []byte{0x08, 0x80} // a varint that ends in the middle
		}
		b = protowire.AppendTag(b, 10, protowire.BytesType)
		b = protowire.AppendBytes(b, in)
	}
	if r.intn(3) == 0 {
		b = protowire.AppendTag(b, 12, protowire.VarintType)
		b = protowire.AppendVarint(b, r.u64())
	}
	if r.intn(16) == 0 {
		b = append(b, 0x08) // malformed: a key without a value
	}
	return b
}

// refDeep is an independent protowire walk for the requests that go below the root: the last occurrence of each
// tag of path but the last one (length-delimited), then the occurrences of the last tag - rendered like
// UInt64Values (varint) or BytesValues (length-delimited). ok=false: the input is not well-formed there.
func refDeep(msg []byte, path ...int) (vals []uint64, blobs [][]byte, found, ok bool) {
	cur := msg
	for li, tag := range path {
		leaf := li == len(path)-1
		var last []byte
		has := false
		b := cur
		for len(b) > 0 {
			num, typ, n := protowire.ConsumeTag(b)
			if n < 0 {
				return nil, nil, false, false
			}
			m := protowire.ConsumeFieldValue(num, typ, b[n:])
			if m < 0 {
				return nil, nil, false, false
			}
			if int(num) == tag {
				switch {
				case typ == protowire.BytesType:
					v, _ := protowire.ConsumeBytes(b[n:])
					last, has = v, true
					if leaf {
						blobs = append(blobs, v)
					}
				case typ == protowire.VarintType && leaf:
					v, _ := protowire.ConsumeVarint(b[n:])
					vals = append(vals, v)
					has = true
				default:
					return nil, nil, false, false
				}
			}
			b = b[n+m:]
		}
		if !has {
			return nil, nil, false, true
		}
		cur = last
	}
	return vals, blobs, true, true
}

// deepPaths: the requests below the root (two, three and four message levels) and whether the last tag is a varint
// field (read with UInt64Values) or a length-delimited one (BytesValues)
var deepPaths = []struct {
	path   []int
	varint bool
}{{[]int{3, 5, 1}, true}, {[]int{3, 5, 2}, false}, {[]int{3, 5, 3, 1}, true}, {[]int{3, 1}, true}, {[]int{3, 5, 3}, false}}

func (o *observer) deep(res *lazyproto.DecodeResult) {
	for _, p := range deepPaths {
		what := label{fmt.Sprint("FieldData", p.path), "values", 0}
		fd, err := res.FieldData(p.path...)
		if err != nil {
			o.out = append(what.append(o.out), "=absent;"...)
			continue
		}
		if p.varint {
			u, err := fd.UInt64Values()
			o.value(what, u, err)
		} else {
			b, err := fd.BytesValues()
			o.value(what, b, err)
		}
	}
}

// refDeepObservation: what deep must observe, from refDeep alone (not from another Decoder)
func refDeepObservation(msg []byte) (string, bool) {
	var o observer
	for _, p := range deepPaths {
		what := label{fmt.Sprint("FieldData", p.path), "values", 0}
		vals, blobs, found, ok := refDeep(msg, p.path...)
		switch {
		case !ok:
			return "", false
		case !found:
			o.out = append(what.append(o.out), "=absent;"...)
		case p.varint:
			o.value(what, vals, nil)
		default:
			o.value(what, blobs, nil)
		}
	}
	return string(o.out), true
}

type accessor struct {
	name string
	get  func(fd *lazyproto.FieldData) (interface{}, error)
}

var accessors = []accessor{
	{"Bool", func(fd *lazyproto.FieldData) (interface{}, error) { return fd.BoolValue() }},
	{"Bools", func(fd *lazyproto.FieldData) (interface{}, error) { return fd.BoolValues() }},
	{"String", func(fd *lazyproto.FieldData) (interface{}, error) { return fd.StringValue() }},
	{"Strings", func(fd *lazyproto.FieldData) (interface{}, error) { return fd.StringValues() }},
	{"Bytes", func(fd *lazyproto.FieldData) (interface{}, error) { return fd.BytesValue() }},
	{"Bytess", func(fd *lazyproto.FieldData) (interface{}, error) { return fd.BytesValues() }},
	{"UInt32", func(fd *lazyproto.FieldData) (interface{}, error) { return fd.UInt32Value() }},
	{"UInt32s", func(fd *lazyproto.FieldData) (interface{}, error) { return fd.UInt32Values() }},
	{"Int32", func(fd *lazyproto.FieldData) (interface{}, error) { return fd.Int32Value() }},
	{"Int32s", func(fd *lazyproto.FieldData) (interface{}, error) { return fd.Int32Values() }},
	{"SInt32", func(fd *lazyproto.FieldData) (interface{}, error) { return fd.SInt32Value() }},
	{"SInt32s", func(fd *lazyproto.FieldData) (interface{}, error) { return fd.SInt32Values() }},
	{"UInt64", func(fd *lazyproto.FieldData) (interface{}, error) { return fd.UInt64Value() }},
	{"UInt64s", func(fd *lazyproto.FieldData) (interface{}, error) { return fd.UInt64Values() }},
	{"Int64", func(fd *lazyproto.FieldData) (interface{}, error) { return fd.Int64Value() }},
	{"Int64s", func(fd *lazyproto.FieldData) (interface{}, error) { return fd.Int64Values() }},
	{"SInt64", func(fd *lazyproto.FieldData) (interface{}, error) { return fd.SInt64Value() }},
	{"SInt64s", func(fd *lazyproto.FieldData) (interface{}, error) { return fd.SInt64Values() }},
	{"Fixed32", func(fd *lazyproto.FieldData) (interface{}, error) { return fd.Fixed32Value() }},
	{"Fixed32s", func(fd *lazyproto.FieldData) (interface{}, error) { return fd.Fixed32Values() }},
	{"Fixed64", func(fd *lazyproto.FieldData) (interface{}, error) { return fd.Fixed64Value() }},
	{"Fixed64s", func(fd *lazyproto.FieldData) (interface{}, error) { return fd.Fixed64Values() }},
	{"Float32", func(fd *lazyproto.FieldData) (interface{}, error) { return fd.Float32Value() }},
	{"Float32s", func(fd *lazyproto.FieldData) (interface{}, error) { return fd.Float32Values() }},
	{"Float64", func(fd *lazyproto.FieldData) (interface{}, error) { return fd.Float64Value() }},
	{"Float64s", func(fd *lazyproto.FieldData) (interface{}, error) { return fd.Float64Values() }},
}

// appendValue renders a value handed out by an accessor (strconv / hex only: this runs millions of times under
// the race detector).
func appendValue(b []byte, v interface{}) []byte {
	switch v := v.(type) {
	case bool:
		return strconv.AppendBool(b, v)
	case uint32:
		return strconv.AppendUint(b, uint64(v), 10)
	case int32:
		return strconv.AppendInt(b, int64(v), 10)
	case uint64:
		return strconv.AppendUint(b, v, 10)
	case int64:
		return strconv.AppendInt(b, v, 10)
	case float32:
		return strconv.AppendUint(append(b, 'f'), uint64(math.Float32bits(v)), 16)
	case float64:
		return strconv.AppendUint(append(b, 'f'), math.Float64bits(v), 16)
	case []byte:
		return appendHex(append(b, 'x'), v)
	case string:
		return appendHex(append(b, 's'), []byte(v))
	case [][]byte:
		b = append(b, '[')
		for _, x := range v {
			b = append(appendHex(append(b, 'x'), x), ' ')
		}
		return append(b, ']')
	case []string:
		b = append(b, '[')
		for _, x := range v {
			b = append(appendHex(append(b, 's'), []byte(x)), ' ')
		}
		return append(b, ']')
	case []bool:
		b = append(b, '[')
		for _, x := range v {
			b = append(strconv.AppendBool(b, x), ' ')
		}
		return append(b, ']')
	case []uint32:
		b = append(b, '[')
		for _, x := range v {
			b = append(strconv.AppendUint(b, uint64(x), 10), ' ')
		}
		return append(b, ']')
	case []int32:
		b = append(b, '[')
		for _, x := range v {
			b = append(strconv.AppendInt(b, int64(x), 10), ' ')
		}
		return append(b, ']')
	case []uint64:
		b = append(b, '[')
		for _, x := range v {
			b = append(strconv.AppendUint(b, x, 10), ' ')
		}
		return append(b, ']')
	case []int64:
		b = append(b, '[')
		for _, x := range v {
			b = append(strconv.AppendInt(b, x, 10), ' ')
		}
		return append(b, ']')
	case []float32:
		b = append(b, '[')
		for _, x := range v {
			b = append(strconv.AppendUint(append(b, 'f'), uint64(math.Float32bits(x)), 16), ' ')
		}
		return append(b, ']')
	case []float64:
		b = append(b, '[')
		for _, x := range v {
			b = append(strconv.AppendUint(append(b, 'f'), math.Float64bits(x), 16), ' ')
		}
		return append(b, ']')
	}
	return append(b, fmt.Sprint(v)...)
}

const hexDigits = "0123456789abcdef"

func appendHex(b, v []byte) []byte {
	for _, c := range v {
		b = append(b, hexDigits[c>>4], hexDigits[c&15])
	}
	return b
}

func render(v interface{}) string { return string(appendValue(nil, v)) }

// errText renders an error through its message: the message of a wire-type mismatch names the wire type found
// in THIS goroutine's input, so it is part of what the goroutine observes.
func errText(err error) string {
	if err == nil {
		return "<nil>"
	}
	return "!" + err.Error()
}

// label names a read: where.name(tag)
type label struct {
	where, name string
	tag         int
}

func (l label) String() string {
	s := l.name
	if l.where != "" {
		s = l.where + "." + s
	}
	if l.tag != 0 {
		s += "(" + strconv.Itoa(l.tag) + ")"
	}
	return s
}

func (l label) append(b []byte) []byte {
	if l.where != "" {
		b = append(append(b, l.where...), '.')
	}
	b = append(b, l.name...)
	if l.tag != 0 {
		b = append(strconv.AppendInt(append(b, '('), int64(l.tag), 10), ')')
	}
	return b
}

// heldValue is a value a goroutine was handed (safe mode) and keeps using after Close.
type heldValue struct {
	what label
	live interface{}
	snap string
}

// observer collects what one goroutine sees of one result.
type observer struct {
	out  []byte
	keep bool // safe mode: remember the values handed out
	held []heldValue
}

func (o *observer) value(what label, v interface{}, err error) {
	o.out = append(what.append(o.out), '=')
	if err != nil {
		o.out = append(append(append(o.out, '!'), err.Error()...), ';')
		return
	}
	from := len(o.out)
	o.out = appendValue(o.out, v)
	if o.keep {
		switch v.(type) {
		case bool, uint32, int32, uint64, int64, float32, float64:
			// plain values cannot change
		default:
			o.held = append(o.held, heldValue{what, v, string(o.out[from:])})
		}
	}
	o.out = append(o.out, ';')
}

func (o *observer) note(what label, present bool, err error) {
	o.out = append(what.append(o.out), '=')
	o.out = strconv.AppendBool(o.out, present)
	o.out = append(append(append(o.out, ','), errText(err)...), ';')
}

// sweep calls every typed accessor on one tag of res.
func (o *observer) sweep(where string, res *lazyproto.DecodeResult, tag int) {
	fd, err := res.FieldData(tag)
	if err != nil {
		o.note(label{where, "FieldData", tag}, false, err)
		return
	}
	for _, a := range accessors {
		v, err := a.get(fd)
		o.value(label{where, a.name, tag}, v, err)
	}
}

const maxRootTag, maxNestedTag = 12, 5

var nestedWhere = []string{"nested3[0]", "nested3[1]", "nested3[2]", "nested3[3]", "nested3[4]"}

// read performs the reads of one iteration on res. choice makes the random choices (the same ones for the
// private and for the shared decoder); cold = the full sweep.
func (o *observer) read(res *lazyproto.DecodeResult, choice *rng, yield, cold bool) {
	v1, e1 := res.UInt64Values(1)
	o.value(label{"", "UInt64Values", 1}, v1, e1)
	if yield {
		runtime.Gosched()
	}
	s2, e2 := res.StringValue(2)
	o.value(label{"", "StringValue", 2}, s2, e2)
	f4, e4 := res.Fixed32Values(4)
	o.value(label{"", "Fixed32Values", 4}, f4, e4)
	b5, e5 := res.BytesValues(5)
	o.value(label{"", "BytesValues", 5}, b5, e5)
	b5l, e5l := res.BytesValue(5)
	o.value(label{"", "BytesValue", 5}, b5l, e5l)
	f6, e6 := res.Float64Values(6)
	o.value(label{"", "Float64Values", 6}, f6, e6)
	// wrong-type requests on purpose: numeric slice accessors on fields of another numeric wire type, ...
	w1, ew1 := res.Fixed32Values(1)
	o.value(label{"", "Fixed32Values", 1}, w1, ew1)
	w6, ew6 := res.SInt64Values(6)
	o.value(label{"", "SInt64Values", 6}, w6, ew6)
	w7, ew7 := res.Fixed64Values(7)
	o.value(label{"", "Fixed64Values", 7}, w7, ew7)
	w2, ew2 := res.UInt32Value(2)
	o.value(label{"", "UInt32Value", 2}, w2, ew2)
	// ... a declared tag that is absent, an undeclared tag
	m9, em9 := res.StringValues(9)
	o.value(label{"", "StringValues", 9}, m9, em9)
	u11, eu11 := res.Int64Value(11)
	o.value(label{"", "Int64Value", 11}, u11, eu11)
	ns, e3 := res.NestedResults(3)
	o.note(label{"", "NestedResults", 3}, len(ns) > 0, e3)
	for i, n := range ns {
		if yield {
			runtime.Gosched()
		}
		where := nestedWhere[i%len(nestedWhere)]
		a, ea := n.UInt64Values(1)
		o.value(label{where, "UInt64Values", 1}, a, ea)
		b, eb := n.BytesValue(2)
		o.value(label{where, "BytesValue", 2}, b, eb)
		c, ec := n.Fixed64Values(3)
		o.value(label{where, "Fixed64Values", 3}, c, ec)
		d, ed := n.StringValues(4)
		o.value(label{where, "StringValues", 4}, d, ed)
		w, ew := n.Float32Values(3)
		o.value(label{where, "Float32Values", 3}, w, ew)
	}
	last, el := res.NestedResult(3)
	o.note(label{"", "NestedResult", 3}, last != nil, el)
	if el == nil && last != nil {
		a, ea := last.UInt64Value(1)
		o.value(label{"last3", "UInt64Value", 1}, a, ea)
		if cold {
			for tag := 1; tag <= maxNestedTag; tag++ {
				o.sweep("last3", last, tag)
			}
		} else if choice.intn(2) == 0 {
			o.sweep("last3", last, 1+choice.intn(maxNestedTag))
		}
		_, en := last.NestedResult(1)
		o.note(label{"last3", "NestedResult", 1}, false, en)
	}
	// a damaged sub-message, a tag without a nested definition, an undeclared tag
	n10, e10 := res.NestedResult(10)
	o.note(label{"", "NestedResult", 10}, n10 != nil, e10)
	_, e10s := res.NestedResults(10)
	o.note(label{"", "NestedResults", 10}, false, e10s)
	_, e5n := res.NestedResult(5)
	o.note(label{"", "NestedResult", 5}, false, e5n)
	_, e11n := res.NestedResult(11)
	o.note(label{"", "NestedResult", 11}, false, e11n)
	// paths
	if fd, err := res.FieldData(3, 2); err != nil {
		o.note(label{"", "FieldData(3,2)", 0}, false, err)
	} else {
		v, err := fd.BytesValue()
		o.value(label{"FieldData(3,2)", "BytesValue", 0}, v, err)
		vs, err := fd.StringValues()
		o.value(label{"FieldData(3,2)", "StringValues", 0}, vs, err)
	}
	if fd, err := res.FieldData(10, 1); err != nil {
		o.note(label{"", "FieldData(10,1)", 0}, false, err)
	} else {
		v, err := fd.UInt64Values()
		o.value(label{"FieldData(10,1)", "UInt64Values", 0}, v, err)
		w, err := fd.Fixed64Values()
		o.value(label{"FieldData(10,1)", "Fixed64Values", 0}, w, err)
	}
	_, e31 := res.FieldData(3, 1, 1)
	o.note(label{"", "FieldData(3,1,1)", 0}, false, e31)
	// three and four message levels: root -> 3 -> 5 [-> 3], through paths and through explicit handles
	o.deep(res)
	if n3, err := res.NestedResult(3); err == nil && n3 != nil {
		n5s, e5s := n3.NestedResults(5)
		o.note(label{"last3", "NestedResults", 5}, len(n5s) > 0, e5s)
		for i, n5 := range n5s {
			where := nestedWhere[i%len(nestedWhere)]
			a, ea := n5.UInt64Values(1)
			o.value(label{"last3.5." + where, "UInt64Values", 1}, a, ea)
			b, eb := n5.BytesValue(2)
			o.value(label{"last3.5." + where, "BytesValue", 2}, b, eb)
			if n53, err := n5.NestedResult(3); err == nil && n53 != nil {
				c, ec := n53.UInt64Values(1)
				o.value(label{"last3.5." + where + ".3", "UInt64Values", 1}, c, ec)
			}
		}
	}
	if cold {
		for tag := 1; tag <= maxRootTag; tag++ {
			o.sweep("root", res, tag)
		}
	} else {
		o.sweep("root", res, 1+choice.intn(maxRootTag))
	}
	res.Range(func(tag int, fd *lazyproto.FieldData) bool {
		o.out = append(strconv.AppendBool(append(strconv.AppendInt(append(o.out, "range "...), int64(tag), 10), ' '), fd != nil), ';')
		return true
	})
}

// reread: a few reads on a result that was kept open while another message was decoded
func reread(res *lazyproto.DecodeResult) string {
	var o observer
	v1, e1 := res.UInt64Values(1)
	o.value(label{"", "UInt64Values", 1}, v1, e1)
	b5, e5 := res.BytesValues(5)
	o.value(label{"", "BytesValues", 5}, b5, e5)
	if fd, err := res.FieldData(3, 2); err != nil {
		o.note(label{"", "FieldData(3,2)", 0}, false, err)
	} else {
		v, err := fd.BytesValue()
		o.value(label{"FieldData(3,2)", "BytesValue", 0}, v, err)
	}
	if fd, err := res.FieldData(3, 4); err != nil {
		o.note(label{"", "FieldData(3,4)", 0}, false, err)
	} else {
		v, err := fd.StringValues()
		o.value(label{"FieldData(3,4)", "StringValues", 0}, v, err)
	}
	return string(o.out)
}

// diffAt shortens an observation to the entries around the first difference with other
func diffAt(a, other []byte) string {
	k := 0
	for k < len(a) && k < len(other) && a[k] == other[k] {
		k++
	}
	from := k
	for n := 0; from > 0 && n < 3; from-- {
		if a[from-1] == ';' {
			n++
		}
	}
	to := k
	for n := 0; to < len(a) && n < 3; to++ {
		if a[to] == ';' {
			n++
		}
	}
	return fmt.Sprintf("…%s… (first difference at byte %d of %d)", a[from:to], k, len(a))
}

func main() {
	g := flag.Int("g", 8, "goroutines")
	n := flag.Int("n", 2000, "iterations per goroutine")
	procs := flag.Int("procs", 0, "GOMAXPROCS (0 = leave)")
	seed := flag.Uint64("seed", 1, "seed")
	fast := flag.Bool("fast", false, "fast mode")
	maxbuf := flag.Int("maxbuf", -1, "max buffer size")
	filter := flag.String("filter", "", "buffer filter function: neg (always negative = leave alone), zero, half, mixed (negative for capacities up to 4, else 2)")
	coldOnly := flag.Bool("cold", false, "every iteration is a cold-start sweep (use with a small -n)")
	flag.Parse()
	if *procs > 0 {
		runtime.GOMAXPROCS(*procs)
	}
	def := lazyproto.NewDef(1, 2, 4, 5, 6, 7, 8, 9)
	def.NestedTag(3, 1, 2, 3, 4).NestedTag(5, 1, 2).NestedTag(3, 1)
	def.NestedTag(10, 1)
	mode := csproto.DecoderModeSafe
	if *fast {
		mode = csproto.DecoderModeFast
	}
	opts := []lazyproto.Option{lazyproto.WithMode(mode)}
	if *maxbuf >= 0 {
		opts = append(opts, lazyproto.WithMaxBufferSize(*maxbuf))
	}
	switch *filter {
	case "":
	case "neg":
		opts = append(opts, lazyproto.WithBufferFilterFunc(func(int) int { return -1 }))
	case "zero":
		opts = append(opts, lazyproto.WithBufferFilterFunc(func(int) int { return 0 }))
	case "half":
		opts = append(opts, lazyproto.WithBufferFilterFunc(func(c int) int { return c / 2 }))
	case "mixed":
		opts = append(opts, lazyproto.WithBufferFilterFunc(func(c int) int {
			if c <= 4 {
				return -1
			}
			return 2
		}))
	default:
		fmt.Println("setup: unknown -filter", *filter)
		os.Exit(2)
	}
	shared, err := lazyproto.NewDecoder(def, opts...)
	if err != nil {
		fmt.Println("setup:", err)
		os.Exit(2)
	}
	var wg sync.WaitGroup
	var mu sync.Mutex
	bad := 0
	report := func(format string, args ...interface{}) {
		mu.Lock()
		if bad < 5 {
			fmt.Printf(format, args...)
		}
		bad++
		mu.Unlock()
	}
	start := make(chan struct{})
	for gi := 0; gi < *g; gi++ {
		wg.Add(1)
		go func(gi int) {
			defer wg.Done()
			<-start // every goroutine begins at the same moment, with a cold process
			r := &rng{s: *seed*1000003 + uint64(gi)}
			private, err := lazyproto.NewDecoder(def, opts...)
			if err != nil {
				report("MISMATCH goroutine=%d NewDecoder: %v\n", gi, err)
				return
			}
			type generation struct {
				it   int
				held []heldValue
			}
			var kept []generation // values handed out in earlier iterations (safe mode)
			verify := func(gen generation, when string) {
				for _, h := range gen.held {
					if now := render(h.live); now != h.snap {
						report("MISMATCH goroutine=%d: the value %s handed out in iteration %d (safe mode) changed %s\n handed out %s\n now        %s\n", gi, h.what, gen.it, when, h.snap, now)
						return
					}
				}
			}
			scribble := func(gen generation) { // the values are the goroutine's own copies: it may do with them what it likes
				for _, h := range gen.held {
					switch v := h.live.(type) {
					case []byte:
						for i := range v {
							v[i] = 0xEE
						}
					case [][]byte:
						for _, b := range v {
							for i := range b {
								b[i] = 0xEE
							}
						}
					case []uint64:
						for i := range v {
							v[i] = 0xEEEEEEEE
						}
					case []string:
						for i := range v {
							v[i] = "scribbled"
						}
					}
				}
			}
			var open *lazyproto.DecodeResult // a result of the shared decoder that is kept open across the next iteration
			var openWant string
			var openIt int
			for i := 0; i < *n; i++ {
				msg := genMsg(r)
				cold := i == 0 || *coldOnly
				choiceSeed := r.u64()
				// what a private decoder finds
				var want observer
				pres, perr := private.Decode(msg)
				want.note(label{"", "Decode", 0}, pres != nil, perr)
				wantReread := ""
				if perr == nil && pres != nil {
					want.read(pres, &rng{s: choiceSeed}, false, cold)
					wantReread = reread(pres)
					pres.Close()
				}
				// the same through the shared decoder
				got := observer{keep: !*fast}
				input := append([]byte{}, msg...)
				sres, serr := shared.Decode(input)
				if !*fast && i%4 == 1 {
					for k := range input { // safe mode: the result has its own copy of the input
						input[k] = 0xDD
					}
				}
				got.note(label{"", "Decode", 0}, sres != nil, serr)
				if serr == nil && sres != nil {
					got.read(sres, &rng{s: choiceSeed}, i%3 == 0, cold)
				}
				if serr == nil && sres != nil {
					// the requests below the root once more, against the protowire walk of this goroutine's own input (the
					// private Decoder above is the same code: it would share a mistake that does not depend on scheduling)
					if wantDeep, ok := refDeepObservation(msg); ok {
						var d observer
						d.deep(sres)
						if string(d.out) != wantDeep {
							report("MISMATCH goroutine=%d iteration=%d msg=%x: values below the root differ from the reference walk of the input\n want %s\n got  %s\n", gi, i, msg, diffAt([]byte(wantDeep), d.out), diffAt(d.out, []byte(wantDeep)))
						}
					}
				}
				if string(want.out) != string(got.out) {
					report("MISMATCH goroutine=%d iteration=%d msg=%x\n want %s\n got  %s\n", gi, i, msg, diffAt(want.out, got.out), diffAt(got.out, want.out))
				}
				// a result kept open since the previous iteration: read it again now that another message was
				// decoded and read with the same Decoder, then close it
				if open != nil {
					if now := reread(open); now != openWant {
						report("MISMATCH goroutine=%d: the result of iteration %d, kept open while iteration %d decoded and read another message, changed\n want %s\n got  %s\n", gi, openIt, i, openWant, now)
					}
					open.Close()
					open = nil
				}
				if serr == nil && sres != nil {
					if i%5 == 2 && i+1 < *n {
						open, openWant, openIt = sres, wantReread, i
					} else {
						sres.Close()
					}
				}
				if i%3 == 1 {
					runtime.Gosched() // results are back in the pool: let the others decode with them
				}
				// values handed out earlier: intact after this iteration's decodes?
				for _, gen := range kept {
					verify(gen, fmt.Sprintf("by iteration %d (after Close and later Decodes)", i))
				}
				if len(got.held) > 0 {
					kept = append(kept, generation{i, got.held})
				}
				if len(kept) > 3 {
					scribble(kept[0])
					kept = kept[1:]
				}
			}
			if open != nil {
				open.Close()
			}
			for _, gen := range kept {
				verify(gen, "by the end of the run")
			}
		}(gi)
	}
	close(start)
	wg.Wait()
	if bad > 0 {
		fmt.Printf("%d mismatches\n", bad)
		os.Exit(1)
	}
	fmt.Printf("ok goroutines=%d iterations=%d\n", *g, *n)
}
