// racecheck: many goroutines share one lazyproto.Decoder (built with -race by the C15 check).
// Every goroutine decodes its own inputs, reads values (incl. nested results) and closes; each value
// is compared with the one a private decoder produced sequentially beforehand. Exit status 0 = all
// equal and the race detector stayed silent (it exits with status 66 on a report).
package main

import (
	"flag"
	"fmt"
	"os"
	"runtime"
	"sync"

	"github.com/CrowdStrike/csproto"
	"github.com/CrowdStrike/csproto/lazyproto"
	"google.golang.org/protobuf/encoding/protowire"
)

type rng struct{ s uint64 }

func (r *rng) u64() uint64 {
	r.s += 0x9E3779B97F4A7C15
	z := r.s
	z = (z ^ (z >> 30)) * 0xBF58476D1CE4E5B9
	z = (z ^ (z >> 27)) * 0x94D049BB133111EB
	return z ^ (z >> 31)
}
func (r *rng) intn(n int) int { return int(r.u64() % uint64(n)) }

// message: 1 varint (repeated), 2 string, 3 nested{1 varint repeated, 2 bytes} (repeated), 4 packed fixed32
func genMsg(r *rng) []byte {
	var b []byte
	for i := r.intn(4); i > 0; i-- {
		b = protowire.AppendTag(b, 1, protowire.VarintType)
		b = protowire.AppendVarint(b, r.u64()>>uint(r.intn(64)))
	}
	if r.intn(4) > 0 {
		b = protowire.AppendTag(b, 2, protowire.BytesType)
		b = protowire.AppendString(b, fmt.Sprintf("s%d", r.u64()%100000))
	}
	for i := r.intn(4); i > 0; i-- {
		var in []byte
		for j := r.intn(3); j > 0; j-- {
			in = protowire.AppendTag(in, 1, protowire.VarintType)
			in = protowire.AppendVarint(in, r.u64()>>uint(r.intn(64)))
		}
		in = protowire.AppendTag(in, 2, protowire.BytesType)
		in = protowire.AppendBytes(in, []byte{byte(r.u64()), byte(r.u64())})
		b = protowire.AppendTag(b, 3, protowire.BytesType)
		b = protowire.AppendBytes(b, in)
	}
	var p []byte
	for i := r.intn(5); i > 0; i-- {
		p = protowire.AppendFixed32(p, uint32(r.u64()))
	}
	b = protowire.AppendTag(b, 4, protowire.BytesType)
	b = protowire.AppendBytes(b, p)
	return b
}

func observe(dec *lazyproto.Decoder, msg []byte, yield bool) (string, error) {
	res, err := dec.Decode(msg)
	if err != nil {
		return "", err
	}
	out := ""
	v1, e1 := res.UInt64Values(1)
	out += fmt.Sprint(v1, e1 != nil)
	if yield {
		runtime.Gosched()
	}
	s2, e2 := res.StringValue(2)
	out += fmt.Sprint(s2, e2 != nil)
	f4, e4 := res.Fixed32Values(4)
	out += fmt.Sprint(f4, e4 != nil)
	ns, e3 := res.NestedResults(3)
	out += fmt.Sprint(len(ns), e3 != nil)
	for _, n := range ns {
		if yield {
			runtime.Gosched()
		}
		a, ea := n.UInt64Values(1)
		b, eb := n.BytesValue(2)
		out += fmt.Sprint(a, ea != nil, b, eb != nil)
	}
	last, el := res.NestedResult(3)
	if el == nil {
		a, ea := last.UInt64Value(1)
		out += fmt.Sprint(a, ea != nil)
	}
	res.Range(func(tag int, fd *lazyproto.FieldData) bool { out += fmt.Sprint(tag, fd != nil); return true })
	res.Close()
	return out, nil
}

func main() {
	g := flag.Int("g", 8, "goroutines")
	n := flag.Int("n", 2000, "iterations per goroutine")
	procs := flag.Int("procs", 0, "GOMAXPROCS (0 = leave)")
	seed := flag.Uint64("seed", 1, "seed")
	fast := flag.Bool("fast", false, "fast mode")
	maxbuf := flag.Int("maxbuf", -1, "max buffer size")
	flag.Parse()
	if *procs > 0 {
		runtime.GOMAXPROCS(*procs)
	}
	def := lazyproto.NewDef(1, 2, 4)
	def.NestedTag(3, 1, 2)
	mode := csproto.DecoderModeSafe
	if *fast {
		mode = csproto.DecoderModeFast
	}
	opts := []lazyproto.Option{lazyproto.WithMode(mode)}
	if *maxbuf >= 0 {
		opts = append(opts, lazyproto.WithMaxBufferSize(*maxbuf))
	}
	shared, err := lazyproto.NewDecoder(def, opts...)
	if err != nil {
		fmt.Println("setup:", err)
		os.Exit(2)
	}
	var wg sync.WaitGroup
	var mu sync.Mutex
	bad := 0
	for gi := 0; gi < *g; gi++ {
		wg.Add(1)
		go func(gi int) {
			defer wg.Done()
			r := &rng{s: *seed*1000003 + uint64(gi)}
			private, _ := lazyproto.NewDecoder(def, opts...)
			for i := 0; i < *n; i++ {
				msg := genMsg(r)
				want, err1 := observe(private, msg, false)
				got, err2 := observe(shared, append([]byte{}, msg...), i%3 == 0)
				if err1 != nil || err2 != nil || want != got {
					mu.Lock()
					if bad < 5 {
						fmt.Printf("MISMATCH goroutine=%d iteration=%d msg=%x\n want %s\n got  %s (%v %v)\n", gi, i, msg, want, got, err1, err2)
					}
					bad++
					mu.Unlock()
				}
			}
		}(gi)
	}
	wg.Wait()
	if bad > 0 {
		fmt.Printf("%d mismatches\n", bad)
		os.Exit(1)
	}
	fmt.Printf("ok goroutines=%d iterations=%d\n", *g, *n)
}
