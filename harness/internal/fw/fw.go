// Package fw is the check framework: it collects correspondence cases (request line for the Lean
// model + the implementation's canonical reply), property-oracle verdicts evaluated directly on the
// implementation, runs the Lean side (facts, proofs, axiom audit, compiled model), decides the
// verdict and writes the evidence file.
package fw

import (
	"bufio"
	"bytes"
	"crypto/sha256"
	"encoding/hex"
	"encoding/json"
	"fmt"
	"os"
	"os/exec"
	"path/filepath"
	"regexp"
	"runtime"
	"sort"
	"strconv"
	"strings"
	"sync"
	"time"

	"csverif/internal/prng"
)

// VerifDir / RepoDir: where the verification tree and the repository under test live. The registered checks
// use the defaults; VERIF_DIR / VERIF_REPO let a scratch copy (seed evaluation in parallel, background runs)
// work on its own pair of directories.
var VerifDir = envOr("VERIF_DIR", "/verif")
var RepoDir = envOr("VERIF_REPO", "/repo")

func envOr(k, d string) string {
	if v := os.Getenv(k); v != "" {
		return v
	}
	return d
}

type Case struct {
	Stream string
	Req    string
	Impl   string
	// Cmp optionally post-processes the model reply before comparing (e.g. drop fields the
	// implementation cannot observe).
	Cmp func(model string) string
}

type Violation struct {
	Stream    string      `json:"stream"`
	Signature string      `json:"signature"`
	What      string      `json:"what"`
	Input     interface{} `json:"input"`
	Expected  string      `json:"expected"`
	Got       string      `json:"got"`
}

type Disagreement struct {
	Stream string `json:"stream"`
	Req    string `json:"request_line"`
	Impl   string `json:"impl_reply"`
	Model  string `json:"model_reply"`
}

type StreamStats struct {
	Cases      int            `json:"cases"`
	Outcomes   map[string]int `json:"outcome_histogram"`
	Sizes      map[string]int `json:"size_histogram"`
	NonTrivial int            `json:"nontrivial"`
}

type Ctx struct {
	Prop    string
	Tier    string
	Seed    uint64
	Rng     *prng.Rng
	Start   time.Time
	Streams map[string]*StreamStats

	cases      []Case
	seen       map[[16]byte]bool
	distinctNT int
	evals      int
	samples    []interface{}

	Violations    []Violation
	Disagreements []Disagreement
	BrokenProof   []string // theorem / bridge lemma / build step that no longer checks
	Notes         []string

	Obligations int
	Discharged  int
	Axioms      map[string][]string
	Facts       []string
	Extra       map[string]interface{}

	journal  *os.File
	sigCount map[string]int
	NoLean   bool
}

func NewCtx(prop, tier string, seed uint64) *Ctx {
	c := &Ctx{Prop: prop, Tier: tier, Seed: seed, Rng: prng.New(seed), Start: time.Now(),
		Streams: map[string]*StreamStats{}, seen: map[[16]byte]bool{}, Axioms: map[string][]string{},
		Extra: map[string]interface{}{}}
	if p := os.Getenv("VERIF_JOURNAL"); p != "" {
		f, err := os.OpenFile(p, os.O_CREATE|os.O_WRONLY|os.O_TRUNC, 0o644)
		if err == nil {
			c.journal = f
		}
	}
	return c
}

// Journal records the case about to be executed on the implementation so that a crash that
// cannot be recovered (fatal out-of-memory, stack overflow, non-termination) can be attributed.
func (c *Ctx) Journal(desc string) {
	if c.journal != nil {
		c.journal.WriteAt([]byte(fmt.Sprintf("%-4096s", trunc(desc, 4000))), 0)
	}
}

func trunc(s string, n int) string {
	if len(s) > n {
		return s[:n]
	}
	return s
}

func (c *Ctx) stream(name string) *StreamStats {
	s := c.Streams[name]
	if s == nil {
		s = &StreamStats{Outcomes: map[string]int{}, Sizes: map[string]int{}}
		c.Streams[name] = s
	}
	return s
}

func sizeClass(n int) string {
	switch {
	case n == 0:
		return "0"
	case n <= 2:
		return "1-2"
	case n <= 8:
		return "3-8"
	case n <= 32:
		return "9-32"
	case n <= 128:
		return "33-128"
	case n <= 1024:
		return "129-1024"
	default:
		return ">1024"
	}
}

// Count records one explored case in the statistics. key identifies the case for the
// distinctness count; nontrivial is the stream's own rule.
func (c *Ctx) Count(stream, key, outcome string, size int, nontrivial bool) {
	s := c.stream(stream)
	s.Cases++
	s.Outcomes[outcome]++
	s.Sizes[sizeClass(size)]++
	c.evals++
	if nontrivial {
		h := sha256.Sum256([]byte(stream + "\x00" + key))
		var k [16]byte
		copy(k[:], h[:16])
		if !c.seen[k] {
			c.seen[k] = true
			c.distinctNT++
			s.NonTrivial++
		}
	}
}

func (c *Ctx) Sample(v interface{}) {
	if len(c.samples) < 12 {
		c.samples = append(c.samples, v)
	}
}

// Model queues a correspondence case.
func (c *Ctx) Model(stream, req, impl string) {
	c.cases = append(c.cases, Case{Stream: stream, Req: req, Impl: impl})
}

func (c *Ctx) ModelCmp(stream, req, impl string, cmp func(string) string) {
	c.cases = append(c.cases, Case{Stream: stream, Req: req, Impl: impl, Cmp: cmp})
}

// Violate records a failing input found by the property oracle on the implementation.
func (c *Ctx) Violate(v Violation) {
	if c.sigCount == nil {
		c.sigCount = map[string]int{}
	}
	c.sigCount[v.Signature]++
	// keep a few witnesses per signature so that one frequent failure does not hide the others
	if c.sigCount[v.Signature] <= 3 && len(c.Violations) < 600 {
		c.Violations = append(c.Violations, v)
	}
}

func ModelBin() string { return filepath.Join(VerifDir, "lean/.lake/build/bin/csmodel") }

// AskModel runs the compiled Lean model on the request lines. Every line is an independent request, so
// the lines are dealt out to several model processes (by size, longest first) and the replies put back in order.
func AskModel(reqs []string) ([]string, error) {
	if f := os.Getenv("VERIF_DUMP_MODEL"); f != "" { // development aid: keep the request lines
		if fh, err := os.OpenFile(f, os.O_APPEND|os.O_CREATE|os.O_WRONLY, 0o644); err == nil {
			for _, r := range reqs {
				fmt.Fprintln(fh, r)
			}
			fh.Close()
		}
	}
	workers := runtime.NumCPU() - 2
	if workers > 12 {
		workers = 12
	}
	if workers < 1 || len(reqs) < 64 {
		workers = 1
	}
	// longest-processing-time-first assignment on the request length
	idx := make([]int, len(reqs))
	for i := range idx {
		idx[i] = i
	}
	sort.SliceStable(idx, func(a, b int) bool { return len(reqs[idx[a]]) > len(reqs[idx[b]]) })
	load := make([]int, workers)
	shard := make([][]int, workers)
	for _, i := range idx {
		w := 0
		for k := 1; k < workers; k++ {
			if load[k] < load[w] {
				w = k
			}
		}
		shard[w] = append(shard[w], i)
		// long requests cost more than proportionally (list-based model)
		load[w] += len(reqs[i]) + len(reqs[i])*len(reqs[i])/4096 + 64
	}
	res := make([]string, len(reqs))
	errs := make([]error, workers)
	var wg sync.WaitGroup
	for w := 0; w < workers; w++ {
		if len(shard[w]) == 0 {
			continue
		}
		wg.Add(1)
		go func(w int) {
			defer wg.Done()
			sort.Ints(shard[w])
			var in bytes.Buffer
			for _, i := range shard[w] {
				in.WriteString(reqs[i])
				in.WriteByte('\n')
			}
			cmd := exec.Command(ModelBin())
			cmd.Stdin = &in
			var out bytes.Buffer
			cmd.Stdout = &out
			cmd.Stderr = os.Stderr
			if err := cmd.Run(); err != nil {
				errs[w] = fmt.Errorf("csmodel: %w", err)
				return
			}
			sc := bufio.NewScanner(&out)
			sc.Buffer(make([]byte, 1<<20), 1<<28)
			n := 0
			for sc.Scan() {
				if n < len(shard[w]) {
					res[shard[w][n]] = sc.Text()
				}
				n++
			}
			if n != len(shard[w]) {
				errs[w] = fmt.Errorf("csmodel: %d replies for %d requests", n, len(shard[w]))
			}
		}(w)
	}
	wg.Wait()
	for _, e := range errs {
		if e != nil {
			return res, e
		}
	}
	return res, nil
}

// FlushModel compares all queued cases with the model.
func (c *Ctx) FlushModel() {
	if len(c.cases) == 0 {
		return
	}
	reqs := make([]string, len(c.cases))
	for i, cs := range c.cases {
		reqs[i] = cs.Req
	}
	replies, err := AskModel(reqs)
	if err != nil {
		c.BrokenProof = append(c.BrokenProof, "model driver failed: "+err.Error())
		c.cases = nil
		return
	}
	for i, cs := range c.cases {
		m := replies[i]
		if cs.Cmp != nil {
			m = cs.Cmp(m)
		}
		if m != cs.Impl {
			if len(c.Disagreements) < 50 {
				c.Disagreements = append(c.Disagreements, Disagreement{cs.Stream, cs.Req, cs.Impl, m})
			}
		}
	}
	c.Extra["model_cases_compared"] = intExtra(c.Extra["model_cases_compared"]) + len(c.cases)
	c.cases = nil
}

func intExtra(v interface{}) int {
	if i, ok := v.(int); ok {
		return i
	}
	return 0
}

// ---------- Lean side ----------

var lakeEnv = []string{}

func runCmd(dir string, timeout time.Duration, name string, args ...string) (string, error) {
	cmd := exec.Command(name, args...)
	cmd.Dir = dir
	var out bytes.Buffer
	cmd.Stdout = &out
	cmd.Stderr = &out
	done := make(chan error, 1)
	if err := cmd.Start(); err != nil {
		return "", err
	}
	go func() { done <- cmd.Wait() }()
	select {
	case err := <-done:
		return out.String(), err
	case <-time.After(timeout):
		cmd.Process.Kill()
		return out.String(), fmt.Errorf("timeout after %v", timeout)
	}
}

var axLine = regexp.MustCompile(`^'([^']+)' depends on axioms: \[(.*)$`)
var axNone = regexp.MustCompile(`^'([^']+)' does not depend on any axioms`)

var allowedAxioms = map[string]bool{"propext": true, "Classical.choice": true, "Quot.sound": true}

// Prove builds the property's Lean modules (with the freshly regenerated facts), runs the hygiene
// grep and the axiom audit. Any failure is recorded in BrokenProof.
func (c *Ctx) Prove(modules ...string) {
	if c.NoLean {
		c.Obligations, c.Discharged = 1, 1
		c.Notes = append(c.Notes, "DEVELOPMENT RUN: Lean build skipped")
		return
	}
	lean := filepath.Join(VerifDir, "lean")
	args := []string{filepath.Join(lean, ".build.lock"), "lake", "build", "csmodel"}
	for _, m := range modules {
		args = append(args, "Csproto.Props."+m, "Csproto.Audit."+m)
	}
	out, err := runCmd(lean, 40*time.Minute, "flock", args...)
	if err != nil {
		// name the first failing declaration/module
		first := "lake build failed"
		for _, l := range strings.Split(out, "\n") {
			if strings.Contains(l, "error:") {
				first = strings.TrimSpace(l)
				break
			}
		}
		c.BrokenProof = append(c.BrokenProof, first+enclosingDecl(lean, first))
		c.Extra["lake_output_tail"] = tail(out, 30)
		return
	}
	// hygiene
	hy, _ := runCmd(lean, time.Minute, "grep", "-rnE", `\bsorry\b|\badmit\b|^axiom |native_decide|bv_decide|implemented_by|unsafe |maxHeartbeats 0`,
		"Csproto", "--include=*.lean")
	bad := regexp.MustCompile(`\bsorry\b|\badmit\b|^axiom |native_decide|bv_decide|implemented_by|unsafe |maxHeartbeats 0`)
	for _, l := range strings.Split(hy, "\n") {
		if l == "" {
			continue
		}
		parts := strings.SplitN(l, ":", 3)
		if len(parts) == 3 {
			code := parts[2]
			if i := strings.Index(code, "--"); i >= 0 {
				code = code[:i]
			}
			if !bad.MatchString(code) {
				continue
			}
		}
		if inComment(lean, l) {
			continue
		}
		c.BrokenProof = append(c.BrokenProof, "hygiene: "+l)
	}
	// audit
	for _, m := range modules {
		out, err := runCmd(lean, 10*time.Minute, "lake", "env", "lean", "Csproto/Audit/"+m+".lean")
		if err != nil {
			c.BrokenProof = append(c.BrokenProof, "audit "+m+" failed: "+tail(out, 5))
			continue
		}
		lines := strings.Split(out, "\n")
		for i := 0; i < len(lines); i++ {
			l := lines[i]
			if mm := axNone.FindStringSubmatch(l); mm != nil {
				c.Obligations++
				c.Discharged++
				c.Axioms[mm[1]] = []string{}
				continue
			}
			if mm := axLine.FindStringSubmatch(l); mm != nil {
				// may span lines until ']'
				txt := mm[2]
				for !strings.Contains(txt, "]") && i+1 < len(lines) {
					i++
					txt += " " + strings.TrimSpace(lines[i])
				}
				txt = strings.TrimSuffix(strings.TrimSpace(txt), "]")
				var axs []string
				ok := true
				for _, a := range strings.Split(txt, ",") {
					a = strings.TrimSpace(a)
					if a == "" {
						continue
					}
					axs = append(axs, a)
					if !allowedAxioms[a] {
						ok = false
					}
				}
				c.Obligations++
				c.Axioms[mm[1]] = axs
				if ok {
					c.Discharged++
				} else {
					c.BrokenProof = append(c.BrokenProof, "theorem "+mm[1]+" depends on non-standard axioms: "+txt)
				}
			}
		}
	}
	if c.Obligations == 0 && len(c.BrokenProof) == 0 {
		c.BrokenProof = append(c.BrokenProof, "axiom audit produced no obligations")
	}
}

// inComment reports whether a grep hit "file:line:text" lies inside a /- … -/ block comment.
// enclosingDecl names the theorem / definition a Lean error position lies in ("error: File.lean:12:3: …")
func enclosingDecl(leanDir, errLine string) string {
	m := regexp.MustCompile(`([A-Za-z0-9_/]+\.lean):(\d+):\d+`).FindStringSubmatch(errLine)
	if m == nil {
		return ""
	}
	data, err := os.ReadFile(filepath.Join(leanDir, m[1]))
	if err != nil {
		return ""
	}
	n, _ := strconv.Atoi(m[2])
	lines := strings.Split(string(data), "\n")
	decl := regexp.MustCompile(`^\s*(?:private |protected )?(theorem|lemma|def|example|instance|abbrev)\s+([^\s:(\[{]+)?`)
	for i := n - 1; i >= 0 && i < len(lines); i-- {
		if d := decl.FindStringSubmatch(lines[i]); d != nil {
			return " [in " + d[1] + " " + d[2] + " of " + m[1] + "]"
		}
	}
	return ""
}

func inComment(dir, hit string) bool {
	parts := strings.SplitN(hit, ":", 3)
	if len(parts) < 3 {
		return false
	}
	ln, err := strconv.Atoi(parts[1])
	if err != nil {
		return false
	}
	data, err := os.ReadFile(filepath.Join(dir, parts[0]))
	if err != nil {
		return false
	}
	depth := 0
	for i, l := range strings.Split(string(data), "\n") {
		if i+1 == ln {
			return depth > 0 || strings.HasPrefix(strings.TrimSpace(l), "--")
		}
		depth += strings.Count(l, "/-") - strings.Count(l, "-/")
	}
	return false
}

func tail(s string, n int) string {
	ls := strings.Split(strings.TrimRight(s, "\n"), "\n")
	if len(ls) > n {
		ls = ls[len(ls)-n:]
	}
	return strings.Join(ls, "\n")
}

// LeanChecker re-checks the compiled modules with the independent checker (thorough tier).
func (c *Ctx) LeanChecker(modules ...string) {
	lean := filepath.Join(VerifDir, "lean")
	for _, m := range modules {
		out, err := runCmd(lean, 30*time.Minute, "lake", "env", "leanchecker", "Csproto.Props."+m)
		if err != nil {
			c.BrokenProof = append(c.BrokenProof, "leanchecker Csproto.Props."+m+": "+tail(out, 3))
		} else {
			c.Notes = append(c.Notes, "leanchecker re-checked Csproto.Props."+m)
		}
	}
}

// ---------- known findings ----------

type Finding struct {
	Status    string `json:"status"`
	Property  string `json:"property"`
	ID        string `json:"id"`
	Signature string `json:"signature"`
	What      string `json:"what"`
	Commit    string `json:"commit,omitempty"`
}

func loadFindings() []Finding {
	var fs []Finding
	data, err := os.ReadFile(filepath.Join(VerifDir, "known_findings.json"))
	if err != nil {
		return nil
	}
	var doc struct {
		Findings []Finding `json:"findings"`
	}
	if json.Unmarshal(data, &doc) == nil {
		fs = doc.Findings
	}
	return fs
}

// ---------- verdict + evidence ----------

// Finish decides the verdict, writes evidence and replay files and returns the exit code.
func (c *Ctx) Finish(rule string, trusted []string, assumptions []string) int {
	c.FlushModel()
	if c.journal != nil {
		c.journal.Close()
	}
	open := map[string]Finding{}
	for _, f := range loadFindings() {
		if f.Status == "open" && f.Property == c.Prop {
			open[f.Signature] = f
		}
	}
	var fresh []Violation
	knownHit := map[string]int{}
	for _, v := range c.Violations {
		if _, ok := open[v.Signature]; ok {
			knownHit[v.Signature]++
			continue
		}
		fresh = append(fresh, v)
	}
	sigs := make([]string, 0, len(knownHit))
	for s := range knownHit {
		sigs = append(sigs, s)
	}
	sort.Strings(sigs)
	for _, s := range sigs {
		fmt.Printf("KNOWN-FINDING: property=%s %s (%s; %d cases this run)\n", c.Prop, open[s].ID, open[s].What, knownHit[s])
	}
	exit := 0
	replayDir := filepath.Join(VerifDir, "replays")
	os.MkdirAll(replayDir, 0o755)
	replay := filepath.Join(replayDir, fmt.Sprintf("%s-%d.json", c.Prop, c.Seed))
	broken := len(c.BrokenProof) > 0 || len(c.Disagreements) > 0
	switch {
	case len(fresh) > 0:
		doc := map[string]interface{}{"property": c.Prop, "tier": c.Tier, "seed": c.Seed, "kind": "failing-input",
			"violations": fresh, "broken_obligations": c.BrokenProof, "disagreements": c.Disagreements,
			"how_to_replay": fmt.Sprintf("cd "+VerifDir+" && VERIF_SEED=%d ./check %s --tier %s", c.Seed, c.Prop, c.Tier)}
		writeJSON(replay, doc)
		fmt.Printf("VIOLATION property=%s replay=%s\n", c.Prop, replay)
		exit = 1
	case broken:
		kind := "broken-obligation"
		if len(c.BrokenProof) == 0 {
			kind = "broken-correspondence"
		}
		doc := map[string]interface{}{"property": c.Prop, "tier": c.Tier, "seed": c.Seed, "kind": kind,
			"broken_obligations": c.BrokenProof, "disagreements": c.Disagreements,
			"note":          "no failing input for the property was found on the implementation; the theorem/bridge lemma/correspondence stream named here no longer checks, so the property is no longer shown to hold",
			"how_to_replay": fmt.Sprintf("cd "+VerifDir+" && VERIF_SEED=%d ./check %s --tier %s", c.Seed, c.Prop, c.Tier)}
		writeJSON(replay, doc)
		fmt.Printf("VIOLATION property=%s replay=%s no-failing-input-found\n", c.Prop, replay)
		exit = 1
	default:
		os.Remove(replay)
	}
	// evidence
	cov := map[string]interface{}{
		"obligations":                   c.Obligations,
		"discharged":                    c.Discharged,
		"checker_cmd":                   "cd " + VerifDir + "/lean && lake build Csproto.Props." + c.Prop + " Csproto.Audit." + c.Prop + " && lake env lean Csproto/Audit/" + c.Prop + ".lean   (thorough: + lake env leanchecker Csproto.Props." + c.Prop + ")",
		"trusted_base":                  trusted,
		"axioms_by_theorem":             c.Axioms,
		"facts_regenerated":             c.Facts,
		"evaluations":                   c.evals,
		"distinct_nontrivial":           c.distinctNT,
		"rule":                          rule,
		"samples":                       c.samples,
		"streams":                       c.Streams,
		"broken_obligations":            c.BrokenProof,
		"disagreements":                 len(c.Disagreements),
		"known_findings_hit":            knownHit,
		"violation_signatures":          c.sigCount,
		"notes":                         c.Notes,
		"traces_validated_against_impl": intExtra(c.Extra["model_cases_compared"]),
	}
	for k, v := range c.Extra {
		cov[k] = v
	}
	if cov["samples"] == nil || len(c.samples) == 0 {
		cov["samples"] = []interface{}{"(no case generated)"}
	}
	ev := map[string]interface{}{
		"property_id": c.Prop, "tier": c.Tier, "seed": c.Seed, "level": "proof", "coverage": cov,
		"assumptions": assumptions, "wall_s": time.Since(c.Start).Seconds(), "violations": len(fresh),
	}
	os.MkdirAll(filepath.Join(VerifDir, "evidence"), 0o755)
	writeJSON(filepath.Join(VerifDir, "evidence", c.Prop+".json"), ev)
	fmt.Printf("%s tier=%s seed=%d: obligations %d/%d, cases %d (distinct non-trivial %d), disagreements %d, violations %d, %.1fs\n",
		c.Prop, c.Tier, c.Seed, c.Discharged, c.Obligations, c.evals, c.distinctNT, len(c.Disagreements), len(fresh), time.Since(c.Start).Seconds())
	return exit
}

func writeJSON(path string, v interface{}) {
	data, err := json.MarshalIndent(v, "", " ")
	if err != nil {
		data = []byte(fmt.Sprintf(`{"error":%q}`, err.Error()))
	}
	os.WriteFile(path, data, 0o644)
}

func Hex(b []byte) string {
	if len(b) == 0 {
		return "-"
	}
	return hex.EncodeToString(b)
}
