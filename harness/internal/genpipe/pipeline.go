package genpipe

import (
	"bytes"
	"crypto/sha256"
	"encoding/hex"
	"fmt"
	"go/ast"
	"go/parser"
	"go/token"
	"os"
	"os/exec"
	"path/filepath"
	"regexp"
	"sort"
	"strconv"
	"strings"

	"google.golang.org/protobuf/proto"
	"google.golang.org/protobuf/reflect/protodesc"
	"google.golang.org/protobuf/reflect/protoregistry"
	"google.golang.org/protobuf/types/descriptorpb"
	"google.golang.org/protobuf/types/pluginpb"

	// make the well-known files available in the global registry
	_ "google.golang.org/protobuf/types/known/anypb"
	_ "google.golang.org/protobuf/types/known/durationpb"
	_ "google.golang.org/protobuf/types/known/structpb"
	_ "google.golang.org/protobuf/types/known/timestamppb"
	_ "google.golang.org/protobuf/types/known/wrapperspb"
)

type Plugins struct {
	FastMarshal string
	GoV2        string
	GoV1        string
	Gogo        string
}

func goBuild(dir, out, pkg string) error {
	cmd := exec.Command("go", "build", "-o", out, pkg)
	cmd.Dir = dir
	if b, err := cmd.CombinedOutput(); err != nil {
		return fmt.Errorf("go build %s: %v: %s", pkg, err, strings.TrimSpace(string(b)))
	}
	return nil
}

// BuildPlugins builds the generator under test from /repo's working tree (always) and the three
// stock plug-ins from the module cache (once per cache directory).
func BuildPlugins(binDir string) (*Plugins, error) {
	os.MkdirAll(binDir, 0o755)
	p := &Plugins{FastMarshal: filepath.Join(binDir, "protoc-gen-fastmarshal"), GoV2: filepath.Join(binDir, "protoc-gen-go"),
		GoV1: filepath.Join(binDir, "protoc-gen-go-v1"), Gogo: filepath.Join(binDir, "protoc-gen-gogo")}
	if err := goBuild(RepoDir, p.FastMarshal, "./cmd/protoc-gen-fastmarshal"); err != nil {
		return nil, err
	}
	for _, x := range []struct{ out, pkg string }{{p.GoV2, "google.golang.org/protobuf/cmd/protoc-gen-go"},
		{p.GoV1, "github.com/golang/protobuf/protoc-gen-go"}, {p.Gogo, "github.com/gogo/protobuf/protoc-gen-gogo"}} {
		if _, err := os.Stat(x.out); err == nil {
			continue
		}
		if err := goBuild(RepoDir, x.out, x.pkg); err != nil {
			return nil, err
		}
	}
	return p, nil
}

func RunPlugin(bin string, req *pluginpb.CodeGeneratorRequest) (*pluginpb.CodeGeneratorResponse, error) {
	in, err := proto.Marshal(req)
	if err != nil {
		return nil, err
	}
	cmd := exec.Command(bin)
	cmd.Stdin = bytes.NewReader(in)
	var out, errb bytes.Buffer
	cmd.Stdout, cmd.Stderr = &out, &errb
	if err := cmd.Run(); err != nil {
		return nil, fmt.Errorf("%s: %v: %s", filepath.Base(bin), err, strings.TrimSpace(errb.String()))
	}
	resp := &pluginpb.CodeGeneratorResponse{}
	if err := proto.Unmarshal(out.Bytes(), resp); err != nil {
		return nil, fmt.Errorf("%s: bad response: %v", filepath.Base(bin), err)
	}
	return resp, nil
}

// depFiles returns the FileDescriptorProtos of the imported well-known files (dependencies first).
func depFiles(imports []string) []*descriptorpb.FileDescriptorProto {
	var out []*descriptorpb.FileDescriptorProto
	seen := map[string]bool{}
	var add func(path string)
	add = func(path string) {
		if seen[path] {
			return
		}
		seen[path] = true
		fd, err := protoregistry.GlobalFiles.FindFileByPath(path)
		if err != nil {
			panic("genpipe: unknown import " + path)
		}
		imps := fd.Imports()
		for i := 0; i < imps.Len(); i++ {
			add(imps.Get(i).Path())
		}
		out = append(out, protodesc.ToFileDescriptorProto(fd))
	}
	for _, p := range imports {
		add(p)
	}
	return out
}

// RepoDir: the repository under test (VERIF_REPO overrides the default for scratch copies).
var RepoDir = func() string {
	if v := os.Getenv("VERIF_REPO"); v != "" {
		return v
	}
	return "/repo"
}()

// Variant: one way of generating code for a schema.
type Variant struct {
	Runtime    string // gogo | v1 | v2
	FM         bool   // run protoc-gen-fastmarshal too
	PerMessage bool
	Unsafe     bool
	Opt        string // one more boolean option of the generator switched on (<Opt>=true), see BoolOptions
	Rep        string // how the repeatable option `specialname` is passed: the label of a RepeatedShape ("" = the single token specialname=Size)
}

func (v Variant) Name() string {
	n := v.Runtime
	if !v.FM {
		return n + "plain"
	}
	if v.PerMessage {
		n += "pm"
	}
	if v.Unsafe {
		n += "unsafe"
	}
	if v.Opt != "" {
		// (the name is a Go package name and a proto package element: lower-case letters and digits only)
		n += "o"
		for _, c := range strings.ToLower(v.Opt) {
			if (c >= 'a' && c <= 'z') || (c >= '0' && c <= '9') {
				n += string(c)
			}
		}
	}
	if v.Rep != "" {
		n += "r" + v.Rep
	}
	return n
}

// GogoSpecialNames: the Go field names protoc-gen-gogo (generator.go: methodNames, plus "Size" without the protosizer
// extension) gives a trailing underscore and protogen (the library the generator under test gets its Go names from)
// does not — the names `specialname=` exists for, in ascending order.
var GogoSpecialNames = []string{"Equal", "GoString", "MarshalTo", "ProtoSize", "Size", "VerboseEqual"}

// RepeatedShape: one way of handing SEVERAL values to a repeatable option (a flag.Value registered with flags.Var,
// whose Set is called once per `name=value` token of the parameter string — protogen splits the parameter at commas,
// so a list of values is always a list of tokens).
type RepeatedShape struct {
	Label  string // lower-case letters and digits (part of the variant's name)
	Values []string
}

// RepeatedShapes: two, three and all values in ascending order, in descending order, in an order that is neither,
// and with one value given twice (first and last, next to each other). Every shape contains "Size", the value of the
// fixed gogo variant, so that every gogo schema of the corpus applies to every shape.
var RepeatedShapes = []RepeatedShape{
	{"asc2", []string{"ProtoSize", "Size"}}, {"desc2", []string{"Size", "ProtoSize"}}, {"dup2", []string{"Size", "Size"}},
	{"asc3", []string{"Equal", "ProtoSize", "Size"}}, {"desc3", []string{"Size", "ProtoSize", "Equal"}}, {"rot3", []string{"ProtoSize", "Size", "Equal"}},
	{"dup3", []string{"Size", "Equal", "Size"}},
	{"asc6", GogoSpecialNames}, {"desc6", reversed(GogoSpecialNames)},
}

func reversed(xs []string) []string {
	out := make([]string, len(xs))
	for i, x := range xs {
		out[len(xs)-1-i] = x
	}
	return out
}

// SpecialNames: the values of the `specialname` option the variant passes (gogo variants only), in the order given.
func (v Variant) SpecialNames() []string {
	if v.Runtime != "gogo" || !v.FM {
		return nil
	}
	for _, sh := range RepeatedShapes {
		if sh.Label == v.Rep {
			return sh.Values
		}
	}
	return []string{"Size"}
}

// Takes reports whether the schema is meaningful for the variant: for its runtime, and — a schema whose Go field
// names need a trailing underscore with the Gogo runtime (Schema.Special) — only when the variant passes all of
// these names to the generator.
func (v Variant) Takes(s *Schema) bool {
	if !s.AppliesTo(v.Runtime) {
		return false
	}
	if !v.FM {
		return true
	}
	have := map[string]bool{}
	for _, n := range v.SpecialNames() {
		have[n] = true
	}
	for _, n := range s.Special {
		if !have[n] {
			return false
		}
	}
	return true
}

// KnownBoolOptions: the boolean options of the generator that the fixed variants of the pipeline switch on and
// off (FMParam) and that the Lean model knows (filepermessage: same snippets, other files; enableunsafedecode: the
// decoder mode parameter of the Unmarshal model).
var KnownBoolOptions = []string{"filepermessage", "enableunsafedecode"}

// BoolOptions discovers the boolean options of the generator under test from its source: the name of every
// `<flag set>.BoolVar(&target, "<name>", <default>, "<usage>")` / `<flag set>.Bool("<name>", …)` call in the non-test
// Go files of cmd/protoc-gen-fastmarshal, in source order. The property quantifies over the generator's options:
// an option that is not in KnownBoolOptions gets variants of its own (see the callers), so that whatever it
// changes in the generated code runs through the same checks.
func BoolOptions() []string {
	dir := filepath.Join(RepoDir, "cmd", "protoc-gen-fastmarshal")
	ents, err := os.ReadDir(dir)
	if err != nil {
		return nil
	}
	var out []string
	seen := map[string]bool{}
	fset := token.NewFileSet()
	for _, e := range ents {
		if e.IsDir() || !strings.HasSuffix(e.Name(), ".go") || strings.HasSuffix(e.Name(), "_test.go") {
			continue
		}
		f, err := parser.ParseFile(fset, filepath.Join(dir, e.Name()), nil, 0)
		if err != nil {
			continue
		}
		ast.Inspect(f, func(n ast.Node) bool {
			ce, ok := n.(*ast.CallExpr)
			if !ok {
				return true
			}
			sel, ok := ce.Fun.(*ast.SelectorExpr)
			if !ok {
				return true
			}
			at := -1
			switch {
			case sel.Sel.Name == "BoolVar" && len(ce.Args) == 4:
				at = 1
			case sel.Sel.Name == "Bool" && len(ce.Args) == 3:
				at = 0
			}
			if at < 0 {
				return true
			}
			if lit, ok := ce.Args[at].(*ast.BasicLit); ok && lit.Kind == token.STRING {
				if name, err := strconv.Unquote(lit.Value); err == nil && !seen[name] {
					seen[name] = true
					out = append(out, name)
				}
			}
			return true
		})
	}
	return out
}

// ValueOptions discovers the options of the generator under test that are flag.Value implementations: the name of
// every `<flag set>.Var(&target, "<name>", "<usage>")` call in the non-test Go files of cmd/protoc-gen-fastmarshal, in
// source order. Such an option's Set method runs once per `name=value` token, so it can be given several times: what it
// stores must not depend on how many values come, in which order, or how often (see RepeatedShapes).
func ValueOptions() []string {
	dir := filepath.Join(RepoDir, "cmd", "protoc-gen-fastmarshal")
	ents, err := os.ReadDir(dir)
	if err != nil {
		return nil
	}
	var out []string
	seen := map[string]bool{}
	fset := token.NewFileSet()
	for _, e := range ents {
		if e.IsDir() || !strings.HasSuffix(e.Name(), ".go") || strings.HasSuffix(e.Name(), "_test.go") {
			continue
		}
		f, err := parser.ParseFile(fset, filepath.Join(dir, e.Name()), nil, 0)
		if err != nil {
			continue
		}
		ast.Inspect(f, func(n ast.Node) bool {
			ce, ok := n.(*ast.CallExpr)
			if !ok {
				return true
			}
			sel, ok := ce.Fun.(*ast.SelectorExpr)
			if !ok || sel.Sel.Name != "Var" || len(ce.Args) != 3 {
				return true
			}
			if lit, ok := ce.Args[1].(*ast.BasicLit); ok && lit.Kind == token.STRING {
				if name, err := strconv.Unquote(lit.Value); err == nil && !seen[name] {
					seen[name] = true
					out = append(out, name)
				}
			}
			return true
		})
	}
	return out
}

// KnownValueOptions: the value options the pipeline knows meaningful values for — apiversion (one of v1 / v2, chosen
// by the runtime of the variant, spelled in both cases) and specialname (a set of Go field names: RepeatedShapes).
var KnownValueOptions = []string{"apiversion", "specialname"}

// NewValueOptions: the discovered value options the pipeline has no values for (reported, see buildCorpus).
func NewValueOptions() []string {
	var out []string
	for _, o := range ValueOptions() {
		known := false
		for _, k := range KnownValueOptions {
			known = known || k == o
		}
		if !known {
			out = append(out, o)
		}
	}
	return out
}

// HasValueOption: the generator under test registers the value option.
func HasValueOption(name string) bool {
	for _, o := range ValueOptions() {
		if o == name {
			return true
		}
	}
	return false
}

// NewBoolOptions: the discovered boolean options the pipeline has no fixed variant for.
func NewBoolOptions() []string {
	var out []string
	for _, o := range BoolOptions() {
		known := false
		for _, k := range KnownBoolOptions {
			known = known || k == o
		}
		if !known {
			out = append(out, o)
		}
	}
	return out
}

type Generated struct {
	Schema     *Schema
	Variant    Variant
	GoImport   string
	GoPkgName  string
	ProtoPkg   string
	FileProto  *descriptorpb.FileDescriptorProto
	Deps       []*descriptorpb.FileDescriptorProto
	Files      map[string]string // relative file name -> content
	GenError   string            // plug-in error (C16)
	FMFiles    []string
	FMToGen    []string // file_to_generate of the request handed to protoc-gen-fastmarshal
	FMResponse *pluginpb.CodeGeneratorResponse
}

var gogoWKT = "Mgoogle/protobuf/descriptor.proto=github.com/gogo/protobuf/protoc-gen-gogo/descriptor,Mgoogle/protobuf/timestamp.proto=github.com/gogo/protobuf/types,Mgoogle/protobuf/duration.proto=github.com/gogo/protobuf/types," +
	"Mgoogle/protobuf/struct.proto=github.com/gogo/protobuf/types,Mgoogle/protobuf/wrappers.proto=github.com/gogo/protobuf/types,Mgoogle/protobuf/any.proto=github.com/gogo/protobuf/types"

// protogen (used by protoc-gen-fastmarshal) needs the package *name* too when several files map to one import path
var gogoWKTfm = strings.ReplaceAll(strings.ReplaceAll(gogoWKT, "github.com/gogo/protobuf/types", "github.com/gogo/protobuf/types;types"),
	"github.com/gogo/protobuf/protoc-gen-gogo/descriptor", "github.com/gogo/protobuf/protoc-gen-gogo/descriptor;descriptor")

// FMParam is the parameter string for protoc-gen-fastmarshal.
func (v Variant) FMParam() string {
	ps := []string{"paths=source_relative"}
	// the option value is case-insensitive (run.go lower-cases it): per-message variants spell it in capitals
	api1, api2 := "apiversion=v1", "apiversion=v2"
	if v.PerMessage {
		api1, api2 = "apiversion=V1", "apiversion=V2"
	}
	if v.Runtime == "gogo" {
		ps = append(ps, api1)
		// a repeatable option: one token per value, in the order of the variant's shape
		for _, n := range v.SpecialNames() {
			ps = append(ps, "specialname="+n)
		}
		ps = append(ps, gogoWKTfm)
	} else {
		ps = append(ps, api2)
	}
	// boolean options are spelled out in both directions: =false must mean "off", like leaving the option out
	switch {
	case v.PerMessage:
		ps = append(ps, "filepermessage=true")
	case v.Runtime == "gogo":
		ps = append(ps, "filepermessage=false")
	}
	switch {
	case v.Unsafe:
		ps = append(ps, "enableunsafedecode=true")
	case v.Runtime != "gogo":
		ps = append(ps, "enableunsafedecode=false")
	}
	if v.Opt != "" {
		ps = append(ps, v.Opt+"=true")
	}
	return strings.Join(ps, ",")
}

// Generate runs the runtime's own plug-in and (optionally) the generator under test.
func Generate(pl *Plugins, s *Schema, v Variant) *Generated {
	g, _ := GenerateUnlessSame(pl, s, v, nil)
	return g
}

// GenerateUnlessSame is Generate for an option variant that has a base variant: the generator under test runs first,
// and when its output is the base variant's (SameOutput) the runtime's own plug-in is not run at all — the package is
// not going to be compiled (same = true; g.Files then holds the generator's files only).
func GenerateUnlessSame(pl *Plugins, s *Schema, v Variant, base *Generated) (g *Generated, same bool) {
	name := v.Name()
	g = &Generated{Schema: s, Variant: v, GoImport: "csverifgen/" + s.ID + "/" + name, GoPkgName: name,
		ProtoPkg: "csverif." + s.ID + "." + name, Files: map[string]string{}}
	fileName := s.ID + "_" + name + ".proto"
	g.FileProto = s.FileDescriptor(fileName, g.ProtoPkg, g.GoImport+";"+name)
	g.Deps = depFiles(s.Imports)
	toGen := []string{fileName}
	if s.Dep != nil {
		// the imported file: package <pkg>.dep, Go package <import>/dep/v1 with the package NAME depv1
		depGo := g.GoImport + "/dep/v1;depv1"
		if s.SamePkg {
			depGo = g.GoImport + ";" + name
		}
		depFD := s.Dep.FileDescriptor(s.DepName(fileName), g.ProtoPkg+".dep", depGo)
		g.Deps = append(g.Deps, depFD)
		toGen = []string{s.DepName(fileName), fileName}
	}
	req := &pluginpb.CodeGeneratorRequest{FileToGenerate: toGen, ProtoFile: append(append([]*descriptorpb.FileDescriptorProto{}, g.Deps...), g.FileProto),
		CompilerVersion: &pluginpb.Version{Major: proto.Int32(3), Minor: proto.Int32(21), Patch: proto.Int32(0)}}
	runRuntime := func() bool {
		req.FileToGenerate = toGen
		var bin string
		switch v.Runtime {
		case "gogo":
			bin, req.Parameter = pl.Gogo, proto.String("paths=source_relative,"+gogoWKT)
		case "v1":
			bin, req.Parameter = pl.GoV1, proto.String("paths=source_relative")
		default:
			bin, req.Parameter = pl.GoV2, proto.String("paths=source_relative")
		}
		resp, err := RunPlugin(bin, req)
		if err != nil {
			g.GenError = "runtime plug-in: " + err.Error()
			return false
		}
		if resp.Error != nil {
			g.GenError = "runtime plug-in: " + resp.GetError()
			return false
		}
		for _, f := range resp.File {
			g.Files[f.GetName()] = f.GetContent()
		}
		return true
	}
	runFM := func() {
		req.FileToGenerate = []string{fileName} // the imported file is somebody else's: not generated
		if s.Dep != nil && s.GenDep {
			req.FileToGenerate = toGen // both files in one request, the imported one first
		}
		g.FMToGen = append([]string{}, req.FileToGenerate...)
		req.Parameter = proto.String(v.FMParam())
		resp, err := RunPlugin(pl.FastMarshal, req)
		if err != nil {
			g.GenError = "fastmarshal: " + err.Error()
			return
		}
		g.FMResponse = resp
		if resp.Error != nil {
			g.GenError = "fastmarshal: " + resp.GetError()
			return
		}
		for _, f := range resp.File {
			g.Files[f.GetName()] = f.GetContent()
			g.FMFiles = append(g.FMFiles, f.GetName())
		}
	}
	if v.FM && base != nil && base.GenError == "" {
		runFM()
		if SameOutput(base, g) {
			return g, true
		}
		// (start over in the usual order: the runtime's plug-in first, its error wins)
		g.GenError, g.FMFiles, g.FMResponse, g.Files = "", nil, nil, map[string]string{}
	}
	if !runRuntime() {
		return g, false
	}
	if v.FM {
		runFM()
	}
	return g, false
}

// SameOutput: the generator under test produced for g exactly what it produced for base — the same files in the same
// order with the same content once the variant's own name (Go package, proto package, .proto file name) is replaced
// by the base variant's. Used to leave out an option variant whose option does not reach the generated code of a
// schema: that code is compiled and run as the base variant already.
func SameOutput(base, g *Generated) bool {
	if base.GenError != "" || g.GenError != "" || len(base.FMFiles) != len(g.FMFiles) {
		return false
	}
	norm := func(x string) string { return strings.ReplaceAll(x, g.Variant.Name(), base.Variant.Name()) }
	for i, n := range g.FMFiles {
		if norm(n) != base.FMFiles[i] || norm(g.Files[n]) != base.Files[base.FMFiles[i]] {
			return false
		}
	}
	return true
}

var logStamp = regexp.MustCompile(`\d{4}/\d\d/\d\d \d\d:\d\d:\d\d(\.\d+)? `)

// Key is a content hash of everything generated (used to key the build cache directory).
func Key(gs []*Generated, extra ...string) string {
	h := sha256.New()
	for _, g := range gs {
		names := make([]string, 0, len(g.Files))
		for n := range g.Files {
			names = append(names, n)
		}
		sort.Strings(names)
		// (a plug-in's error text may carry the log package's time stamp: not content)
		fmt.Fprintf(h, "%s|%s|%s\n", g.Schema.ID, g.Variant.Name(), logStamp.ReplaceAllString(g.GenError, ""))
		for _, n := range names {
			fmt.Fprintf(h, "%s\x00%s\x00", n, g.Files[n])
		}
	}
	for _, e := range extra {
		h.Write([]byte(e))
	}
	return hex.EncodeToString(h.Sum(nil))[:20]
}

// WriteModule lays out a scratch Go module containing the generated packages and a main package.
func WriteModule(root string, gs []*Generated, mainSrc string, harnessDir string) error {
	if err := os.MkdirAll(root, 0o755); err != nil {
		return err
	}
	gomod := "module csverifgen\n\ngo 1.21\n\nrequire (\n\tgithub.com/CrowdStrike/csproto v0.0.0\n\tcsverif v0.0.0\n)\n\nreplace github.com/CrowdStrike/csproto => " + RepoDir + "\n\nreplace github.com/CrowdStrike/csproto/example => " + RepoDir + "/example\n\nreplace csverif => " + harnessDir + "\n"
	if err := os.WriteFile(filepath.Join(root, "go.mod"), []byte(gomod), 0o644); err != nil {
		return err
	}
	if sum, err := os.ReadFile(filepath.Join(harnessDir, "go.sum")); err == nil {
		os.WriteFile(filepath.Join(root, "go.sum"), sum, 0o644)
	}
	for _, g := range gs {
		if g.GenError != "" {
			continue
		}
		dir := filepath.Join(root, g.Schema.ID, g.Variant.Name())
		if err := os.MkdirAll(dir, 0o755); err != nil {
			return err
		}
		for n, c := range g.Files {
			dst := filepath.Join(dir, filepath.Base(n))
			if strings.HasPrefix(n, "dep/") { // the imported file's package lives in its own directory
				dst = filepath.Join(dir, n)
				os.MkdirAll(filepath.Dir(dst), 0o755)
			}
			if err := os.WriteFile(dst, []byte(c), 0o644); err != nil {
				return err
			}
		}
	}
	if mainSrc != "" {
		dir := filepath.Join(root, "cmd", "run")
		os.MkdirAll(dir, 0o755)
		return os.WriteFile(filepath.Join(dir, "main.go"), []byte(mainSrc), 0o644)
	}
	return nil
}
