// Package genpipe builds protobuf schemas programmatically (no protoc in the sandbox), drives the
// protoc plug-ins (protoc-gen-go, protoc-gen-gogo, and /repo's protoc-gen-fastmarshal) through
// hand-made CodeGeneratorRequests, and assembles scratch Go modules from their output.
package genpipe

import (
	"fmt"
	"strings"

	"google.golang.org/protobuf/proto"
	"google.golang.org/protobuf/types/descriptorpb"
)

// F describes one field in the schema DSL.
type F struct {
	Name string
	Num  int32
	Kind string // int32 … bytes | msg:<Name> | enum:<Name> | wkt:<google.protobuf.X>
	Card string // opt | req | rep | packed | p3opt | map:<keykind> | oneof:<group>
}

type M struct {
	Name   string
	Fields []F
	Nested []M
	Ext    []F        // extensions declared inside this message: Card carries "ext:<Extendee>"
	Ranges [][2]int32 // extension ranges
	// Reserved: `reserved 2, 7 to 9, 1000 to max;` as [start, end) like the extension ranges; ReservedNames: `reserved "old";`
	Reserved      [][2]int32
	ReservedNames []string
}

type E struct {
	Name   string
	Values []int32 // first must be 0 for proto3
}

type Schema struct {
	ID       string
	Syntax   string // proto2 | proto3
	Messages []M
	Enums    []E
	Imports  []string // e.g. google/protobuf/timestamp.proto
	Only     []string // runtimes the schema applies to (empty = all)
	FileExt  []F      // extensions declared at file level: Card carries "ext:<Extendee>"
	Dep      *Schema  // a second .proto file, imported by this one, with its own Go package (dep/v1;depv1);
	// its types are referenced as "dep:<Message>" / "depenum:<Enum>"; only the importing file is generated
	GenDep bool // … unless GenDep is set: then ONE request asks the generator for both files (protoc a.proto b.proto)
	// SamePkg: the imported file belongs to the SAME Go package as the importing one (one package split over two
	// .proto files, another proto package): its types need no qualifier and no import, and whatever the generator emits
	// once per file ends up twice in one package
	SamePkg bool
	// Special: the Go field names of the schema that protoc-gen-gogo gives a trailing underscore and protogen does not
	// (GogoSpecialNames): a gogo variant must pass every one of them as `specialname=` (Variant.Takes)
	Special []string
}

// DepName is the name of the schema's imported file.
func (s *Schema) DepName(fileName string) string {
	if s.SamePkg {
		return strings.TrimSuffix(fileName, ".proto") + "_part2.proto"
	}
	return DepFileName(fileName)
}

// DepFileName is the name of the imported file of a schema with a Dep.
func DepFileName(fileName string) string {
	return "dep/v1/" + strings.TrimSuffix(fileName, ".proto") + "_dep.proto"
}

// AppliesTo reports whether the schema is meaningful for the runtime.
func (s *Schema) AppliesTo(rt string) bool {
	if len(s.Only) == 0 {
		return true
	}
	for _, o := range s.Only {
		if o == rt {
			return true
		}
	}
	return false
}

var scalarTypes = map[string]descriptorpb.FieldDescriptorProto_Type{
	"double": descriptorpb.FieldDescriptorProto_TYPE_DOUBLE, "float": descriptorpb.FieldDescriptorProto_TYPE_FLOAT,
	"int64": descriptorpb.FieldDescriptorProto_TYPE_INT64, "uint64": descriptorpb.FieldDescriptorProto_TYPE_UINT64,
	"int32": descriptorpb.FieldDescriptorProto_TYPE_INT32, "fixed64": descriptorpb.FieldDescriptorProto_TYPE_FIXED64,
	"fixed32": descriptorpb.FieldDescriptorProto_TYPE_FIXED32, "bool": descriptorpb.FieldDescriptorProto_TYPE_BOOL,
	"string": descriptorpb.FieldDescriptorProto_TYPE_STRING, "bytes": descriptorpb.FieldDescriptorProto_TYPE_BYTES,
	"uint32": descriptorpb.FieldDescriptorProto_TYPE_UINT32, "sfixed32": descriptorpb.FieldDescriptorProto_TYPE_SFIXED32,
	"sfixed64": descriptorpb.FieldDescriptorProto_TYPE_SFIXED64, "sint32": descriptorpb.FieldDescriptorProto_TYPE_SINT32,
	"sint64": descriptorpb.FieldDescriptorProto_TYPE_SINT64,
}

// ScalarKinds lists the 15 scalar kinds.
var ScalarKinds = []string{"double", "float", "int32", "int64", "uint32", "uint64", "sint32", "sint64", "fixed32", "fixed64", "sfixed32", "sfixed64", "bool", "string", "bytes"}

func camel(s string) string {
	parts := strings.Split(s, "_")
	for i, p := range parts {
		if p != "" {
			parts[i] = strings.ToUpper(p[:1]) + p[1:]
		}
	}
	return strings.Join(parts, "")
}

// FileDescriptor renders the schema for one variant: pkg is the proto package, goPkg the Go import path.
func (s *Schema) FileDescriptor(fileName, pkg, goPkg string) *descriptorpb.FileDescriptorProto {
	fd := &descriptorpb.FileDescriptorProto{
		Name:       proto.String(fileName),
		Package:    proto.String(pkg),
		Dependency: append([]string{}, s.Imports...),
		Options:    &descriptorpb.FileOptions{GoPackage: proto.String(goPkg)},
	}
	if s.Dep != nil {
		fd.Dependency = append(fd.Dependency, s.DepName(fileName))
	}
	if s.Syntax == "proto3" {
		fd.Syntax = proto.String("proto3")
	} else {
		fd.Syntax = proto.String("proto2")
	}
	for _, e := range s.Enums {
		ed := &descriptorpb.EnumDescriptorProto{Name: proto.String(e.Name)}
		for i, v := range e.Values {
			n := fmt.Sprintf("%s_V%d", strings.ToUpper(e.Name), i)
			ed.Value = append(ed.Value, &descriptorpb.EnumValueDescriptorProto{Name: proto.String(n), Number: proto.Int32(v)})
		}
		fd.EnumType = append(fd.EnumType, ed)
	}
	for i := range s.Messages {
		fd.MessageType = append(fd.MessageType, s.message(&s.Messages[i], "."+pkg, pkg))
	}
	for _, x := range s.FileExt {
		t, tn := s.typeRef(x.Kind, pkg)
		_, def := splitDefault(x.Kind)
		ext := &descriptorpb.FieldDescriptorProto{Name: proto.String(x.Name), Number: proto.Int32(x.Num), Type: t.Enum(), TypeName: tn, DefaultValue: def,
			Label: descriptorpb.FieldDescriptorProto_LABEL_OPTIONAL.Enum(), Extendee: proto.String("." + pkg + "." + strings.TrimPrefix(x.Card, "ext:")), JsonName: proto.String(lowerCamel(x.Name))}
		extCardinality(ext, x)
		fd.Extension = append(fd.Extension, ext)
	}
	return fd
}

// splitDefault: a kind may carry a proto2 default value, "int32=7", "string=abc", "enum:Color=COLOR_V2"
func splitDefault(kind string) (string, *string) {
	if i := strings.Index(kind, "="); i >= 0 {
		return kind[:i], proto.String(kind[i+1:])
	}
	return kind, nil
}

func (s *Schema) typeRef(kind, pkg string) (descriptorpb.FieldDescriptorProto_Type, *string) {
	kind, _ = splitDefault(kind)
	switch {
	case strings.HasPrefix(kind, "msg:"):
		return descriptorpb.FieldDescriptorProto_TYPE_MESSAGE, proto.String("." + pkg + "." + strings.TrimPrefix(kind, "msg:"))
	case strings.HasPrefix(kind, "enum:"):
		return descriptorpb.FieldDescriptorProto_TYPE_ENUM, proto.String("." + pkg + "." + strings.TrimPrefix(kind, "enum:"))
	case strings.HasPrefix(kind, "dep:"):
		return descriptorpb.FieldDescriptorProto_TYPE_MESSAGE, proto.String("." + pkg + ".dep." + strings.TrimPrefix(kind, "dep:"))
	case strings.HasPrefix(kind, "depenum:"):
		return descriptorpb.FieldDescriptorProto_TYPE_ENUM, proto.String("." + pkg + ".dep." + strings.TrimPrefix(kind, "depenum:"))
	case strings.HasPrefix(kind, "wkt:"):
		return descriptorpb.FieldDescriptorProto_TYPE_MESSAGE, proto.String("." + strings.TrimPrefix(kind, "wkt:"))
	}
	t, ok := scalarTypes[kind]
	if !ok {
		panic("genpipe: unknown kind " + kind)
	}
	return t, nil
}

func (s *Schema) message(m *M, scope, pkg string) *descriptorpb.DescriptorProto {
	md := &descriptorpb.DescriptorProto{Name: proto.String(m.Name)}
	full := scope + "." + m.Name
	oneofIdx := map[string]int32{}
	for _, f := range m.Fields {
		if strings.HasPrefix(f.Card, "oneof:") {
			g := strings.TrimPrefix(f.Card, "oneof:")
			if _, ok := oneofIdx[g]; !ok {
				oneofIdx[g] = int32(len(md.OneofDecl))
				md.OneofDecl = append(md.OneofDecl, &descriptorpb.OneofDescriptorProto{Name: proto.String(g)})
			}
		}
	}
	var synthetic []*descriptorpb.OneofDescriptorProto
	for _, f := range m.Fields {
		fdp := &descriptorpb.FieldDescriptorProto{Name: proto.String(f.Name), Number: proto.Int32(f.Num), JsonName: proto.String(lowerCamel(f.Name))}
		switch {
		case strings.HasPrefix(f.Card, "map:"):
			keyKind := strings.TrimPrefix(f.Card, "map:")
			entry := &descriptorpb.DescriptorProto{Name: proto.String(camel(f.Name) + "Entry"), Options: &descriptorpb.MessageOptions{MapEntry: proto.Bool(true)}}
			kt, _ := s.typeRef(keyKind, pkg)
			vt, vn := s.typeRef(f.Kind, pkg)
			entry.Field = []*descriptorpb.FieldDescriptorProto{
				{Name: proto.String("key"), Number: proto.Int32(1), Type: kt.Enum(), Label: descriptorpb.FieldDescriptorProto_LABEL_OPTIONAL.Enum(), JsonName: proto.String("key")},
				{Name: proto.String("value"), Number: proto.Int32(2), Type: vt.Enum(), TypeName: vn, Label: descriptorpb.FieldDescriptorProto_LABEL_OPTIONAL.Enum(), JsonName: proto.String("value")},
			}
			md.NestedType = append(md.NestedType, entry)
			fdp.Type = descriptorpb.FieldDescriptorProto_TYPE_MESSAGE.Enum()
			fdp.TypeName = proto.String(full + "." + entry.GetName())
			fdp.Label = descriptorpb.FieldDescriptorProto_LABEL_REPEATED.Enum()
		default:
			t, tn := s.typeRef(f.Kind, pkg)
			fdp.Type, fdp.TypeName = t.Enum(), tn
			_, fdp.DefaultValue = splitDefault(f.Kind)
			switch {
			case f.Card == "req":
				fdp.Label = descriptorpb.FieldDescriptorProto_LABEL_REQUIRED.Enum()
			case f.Card == "rep":
				fdp.Label = descriptorpb.FieldDescriptorProto_LABEL_REPEATED.Enum()
				if s.Syntax == "proto3" && isPackable(f.Kind) {
					fdp.Options = &descriptorpb.FieldOptions{Packed: proto.Bool(false)}
				}
			case f.Card == "packed":
				fdp.Label = descriptorpb.FieldDescriptorProto_LABEL_REPEATED.Enum()
				if s.Syntax == "proto2" {
					fdp.Options = &descriptorpb.FieldOptions{Packed: proto.Bool(true)}
				}
			case f.Card == "p3opt":
				fdp.Label = descriptorpb.FieldDescriptorProto_LABEL_OPTIONAL.Enum()
				fdp.Proto3Optional = proto.Bool(true)
				fdp.OneofIndex = proto.Int32(int32(len(oneofIdx) + len(synthetic)))
				synthetic = append(synthetic, &descriptorpb.OneofDescriptorProto{Name: proto.String("_" + f.Name)})
			case strings.HasPrefix(f.Card, "oneof:"):
				fdp.Label = descriptorpb.FieldDescriptorProto_LABEL_OPTIONAL.Enum()
				fdp.OneofIndex = proto.Int32(oneofIdx[strings.TrimPrefix(f.Card, "oneof:")])
			default:
				fdp.Label = descriptorpb.FieldDescriptorProto_LABEL_OPTIONAL.Enum()
			}
		}
		md.Field = append(md.Field, fdp)
	}
	md.OneofDecl = append(md.OneofDecl, synthetic...)
	for _, r := range m.Ranges {
		md.ExtensionRange = append(md.ExtensionRange, &descriptorpb.DescriptorProto_ExtensionRange{Start: proto.Int32(r[0]), End: proto.Int32(r[1])})
	}
	for _, r := range m.Reserved {
		md.ReservedRange = append(md.ReservedRange, &descriptorpb.DescriptorProto_ReservedRange{Start: proto.Int32(r[0]), End: proto.Int32(r[1])})
	}
	md.ReservedName = append(md.ReservedName, m.ReservedNames...)
	for _, x := range m.Ext {
		t, tn := s.typeRef(x.Kind, pkg)
		_, def := splitDefault(x.Kind)
		ext := &descriptorpb.FieldDescriptorProto{Name: proto.String(x.Name), Number: proto.Int32(x.Num), Type: t.Enum(), TypeName: tn, DefaultValue: def,
			Label: descriptorpb.FieldDescriptorProto_LABEL_OPTIONAL.Enum(), Extendee: proto.String("." + pkg + "." + strings.TrimPrefix(x.Card, "ext:")), JsonName: proto.String(lowerCamel(x.Name))}
		extCardinality(ext, x)
		md.Extension = append(md.Extension, ext)
	}
	for i := range m.Nested {
		md.NestedType = append(md.NestedType, s.message(&m.Nested[i], full, pkg))
	}
	return md
}

// extCardinality: an extension whose name ends in "_rep" is declared `repeated`; one whose name ends in "_packed_rep"
// (a packable kind) is declared `repeated … [packed=true]`, the way an ordinary proto2 field of Card "packed" is.
func extCardinality(ext *descriptorpb.FieldDescriptorProto, x F) {
	if !strings.HasSuffix(x.Name, "_rep") {
		return
	}
	ext.Label = descriptorpb.FieldDescriptorProto_LABEL_REPEATED.Enum()
	if kind, _ := splitDefault(x.Kind); strings.HasSuffix(x.Name, "_packed_rep") && isPackable(kind) {
		ext.Options = &descriptorpb.FieldOptions{Packed: proto.Bool(true)}
	}
}

func isPackable(kind string) bool {
	return !(kind == "string" || kind == "bytes" || strings.HasPrefix(kind, "msg:") || strings.HasPrefix(kind, "wkt:") || strings.HasPrefix(kind, "dep:"))
}

func lowerCamel(s string) string {
	c := camel(s)
	if c == "" {
		return c
	}
	return strings.ToLower(c[:1]) + c[1:]
}
