package genpipe

import "fmt"

func allKinds(prefix string, start int32, card string, kinds []string) []F {
	var fs []F
	for i, k := range kinds {
		fs = append(fs, F{Name: fmt.Sprintf("%s_%s", prefix, k), Num: start + int32(i), Kind: k, Card: card})
	}
	return fs
}

var numericKinds = []string{"double", "float", "int32", "int64", "uint32", "uint64", "sint32", "sint64", "fixed32", "fixed64", "sfixed32", "sfixed64", "bool"}
var mapKeyKinds = []string{"int32", "int64", "uint32", "uint64", "sint32", "sint64", "fixed32", "fixed64", "sfixed32", "sfixed64", "string"}

// Corpus returns the schema corpus: a feature matrix that renders every branch of every template
// snippet (kind x cardinality x syntax, maps, oneofs, recursion, extensions, foreign messages, big
// field numbers, special names). Risky features live in schemas of their own so that one
// non-compiling snippet does not hide the rest.
func Corpus() []*Schema {
	color := E{Name: "Color", Values: []int32{0, 1, 2, -1, 2147483647}}
	var cs []*Schema
	// proto3 core
	p3 := &Schema{ID: "p3", Syntax: "proto3", Enums: []E{color}}
	p3.Messages = []M{
		{Name: "Scalars", Fields: append(allKinds("s", 1, "opt", ScalarKinds), F{"s_enum", 16, "enum:Color", "opt"})},
		{Name: "Repeated", Fields: append(append(allKinds("r", 1, "packed", numericKinds), allKinds("r", 14, "rep", []string{"string", "bytes"})...), F{"r_enum", 16, "enum:Color", "packed"})},
		{Name: "Unpacked", Fields: append(allKinds("u", 1, "rep", numericKinds), F{"u_enum", 16, "enum:Color", "rep"})},
		// a second message with every packed kind: whatever a template emits "once, where needed" appears twice in a package
		{Name: "Repeated2", Fields: append(allKinds("q", 1, "packed", numericKinds), F{"q_enum", 16, "enum:Color", "packed"}, F{"q_f", 17, "float", "opt"}, F{"q_d", 18, "double", "opt"})},
		{Name: "Nest", Fields: []F{{"leaf", 1, "msg:Scalars", "opt"}, {"leaves", 2, "msg:Scalars", "rep"}, {"self", 3, "msg:Nest", "opt"}, {"selves", 4, "msg:Nest", "rep"},
			{"other", 5, "msg:Peer", "opt"}, {"id", 6, "int32", "opt"}, {"big1", 15, "int32", "opt"}, {"big2", 16, "int32", "opt"}, {"big3", 2047, "string", "opt"}, {"big4", 2048, "string", "opt"},
			{"big5", 67108864, "uint64", "opt"}, {"big6", 536870911, "sint32", "opt"}}},
		{Name: "Peer", Fields: []F{{"back", 1, "msg:Nest", "opt"}, {"note", 2, "string", "opt"}}},
		// field numbers on both sides of every size of the field key (1..5 bytes) and inside each range
		{Name: "KeySizes", Fields: []F{{"k15", 15, "sint64", "opt"}, {"k16", 16, "bool", "opt"}, {"k2047", 2047, "fixed32", "packed"}, {"k2048", 2048, "bytes", "opt"},
			{"k3000", 3000, "int64", "rep"}, {"k4095", 4095, "string", "opt"}, {"k4096", 4096, "double", "opt"}, {"k262143", 262143, "msg:Peer", "opt"}, {"k262144", 262144, "string", "rep"},
			{"k1m", 1000000, "sint32", "packed"}, {"k33554431", 33554431, "uint32", "opt"}, {"k33554432", 33554432, "msg:Peer", "rep"}, {"k100m", 100000000, "fixed64", "opt"},
			{"k268435455", 268435455, "string", "opt"}, {"k268435456", 268435456, "int32", "opt"}, {"k400m", 400000000, "bytes", "opt"}, {"k536870910", 536870910, "float", "opt"},
			{"kmap", 300000, "int32", "map:string"}}},
		{Name: "OneOfs", Fields: append(allKinds("w", 1, "oneof:which", ScalarKinds), F{"w_enum", 16, "enum:Color", "oneof:which"}, F{"w_msg", 17, "msg:Scalars", "oneof:which"},
			F{"x_a", 20, "int32", "oneof:second"}, F{"x_b", 21, "string", "oneof:second"}, F{"plain", 30, "string", "opt"})},
		// a oneof none of whose members needs its value to compute its size
		{Name: "FixedOneof", Fields: []F{{"b", 1, "bool", "oneof:flag"}, {"f", 2, "fixed32", "oneof:flag"}, {"d", 3, "double", "oneof:flag"}, {"s", 4, "sfixed64", "oneof:flag"}, {"fl", 5, "float", "oneof:flag"}}},
		{Name: "Outer", Fields: []F{{"in", 1, "msg:Outer.Inner", "opt"}, {"ins", 2, "msg:Outer.Inner", "rep"}},
			Nested: []M{{Name: "Inner", Fields: []F{{"v", 1, "sint64", "opt"}, {"deep", 2, "msg:Outer.Inner.Deepest", "opt"}},
				Nested: []M{{Name: "Deepest", Fields: []F{{"b", 1, "bytes", "opt"}}}}}}},
	}
	cs = append(cs, p3)
	// proto3 optional (protoc-gen-gogo 1.3.2 predates it)
	cs = append(cs, &Schema{ID: "p3opt", Syntax: "proto3", Enums: []E{color}, Only: []string{"v1", "v2"}, Messages: []M{
		{Name: "Optionals", Fields: append(allKinds("o", 1, "p3opt", ScalarKinds), F{"o_enum", 16, "enum:Color", "p3opt"}, F{"o_msg", 17, "msg:Leaf", "p3opt"}, F{"plain", 18, "int32", "opt"})},
		{Name: "Leaf", Fields: []F{{"v", 1, "int32", "opt"}}}}})
	// proto3 maps: every key kind with a string value, and a string key with every value kind
	maps := &Schema{ID: "maps", Syntax: "proto3", Enums: []E{color}}
	var byKey, byVal []F
	for i, k := range mapKeyKinds {
		byKey = append(byKey, F{Name: "k_" + k, Num: int32(1 + i), Kind: "string", Card: "map:" + k})
	}
	for i, v := range ScalarKinds {
		byVal = append(byVal, F{Name: "v_" + v, Num: int32(1 + i), Kind: v, Card: "map:string"})
	}
	byVal = append(byVal, F{"v_enum", 20, "enum:Color", "map:string"}, F{"v_msg", 21, "msg:MapVal", "map:string"}, F{"v_i64_i64", 22, "int64", "map:int64"}, F{"v_u32_bytes", 23, "bytes", "map:uint32"})
	maps.Messages = []M{{Name: "ByKey", Fields: byKey}, {Name: "ByValue", Fields: byVal}, {Name: "MapVal", Fields: []F{{"n", 1, "int32", "opt"}, {"s", 2, "string", "opt"}, {"m", 3, "int32", "map:string"}}}}
	cs = append(cs, maps)
	// proto2 core
	p2 := &Schema{ID: "p2", Syntax: "proto2", Enums: []E{color}}
	p2.Messages = []M{
		{Name: "Optionals", Fields: append(allKinds("o", 1, "opt", ScalarKinds), F{"o_enum", 16, "enum:Color", "opt"}, F{"o_msg", 17, "msg:Req", "opt"})},
		{Name: "Req", Fields: []F{{"id", 1, "int32", "req"}, {"name", 2, "string", "req"}, {"data", 3, "bytes", "req"}, {"flag", 4, "bool", "req"}, {"kind", 5, "enum:Color", "req"},
			{"f64", 6, "sfixed64", "req"}, {"ratio", 7, "double", "req"}, {"note", 8, "string", "opt"}}},
		{Name: "ReqNest", Fields: []F{{"must", 1, "msg:Req", "req"}, {"may", 2, "msg:Req", "opt"}, {"many", 3, "msg:Req", "rep"}, {"label", 4, "string", "opt"}}},
		{Name: "Repeated", Fields: append(append(allKinds("r", 1, "rep", ScalarKinds), F{"r_enum", 16, "enum:Color", "rep"}), F{"r_msg", 17, "msg:Optionals", "rep"})},
		{Name: "Packed", Fields: append(allKinds("p", 1, "packed", numericKinds), F{"p_enum", 16, "enum:Color", "packed"})},
		{Name: "OneOfs", Fields: append(allKinds("w", 1, "oneof:which", ScalarKinds), F{"w_enum", 16, "enum:Color", "oneof:which"}, F{"w_msg", 17, "msg:Req", "oneof:which"})},
		{Name: "Maps", Fields: []F{{"m_req", 1, "msg:Req", "map:string"}, {"m_int", 2, "sint32", "map:int32"}}},
		// a message with a required field whose own Size() is 0 when nothing is set (no required bytes field),
		// nested in every position
		{Name: "ReqS", Fields: []F{{"id", 1, "int32", "req"}, {"note", 2, "string", "opt"}}},
		// required fields declared AFTER a repeated field, a map and a oneof
		{Name: "ReqLate", Fields: []F{{"labels", 1, "string", "rep"}, {"by", 2, "int32", "map:string"}, {"a", 3, "int32", "oneof:pick"}, {"b", 4, "string", "oneof:pick"},
			{"id", 5, "int32", "req"}, {"sub", 6, "msg:ReqS", "req"}}},
		{Name: "ReqSNest", Fields: []F{{"may", 1, "msg:ReqS", "opt"}, {"many", 2, "msg:ReqS", "rep"}, {"by", 3, "msg:ReqS", "map:string"},
			{"one", 4, "msg:ReqS", "oneof:pick"}, {"other", 5, "string", "oneof:pick"}}},
	}
	cs = append(cs, p2)
	// proto2 extensions declared inside a top-level message of the same file (the supported shape)
	ext := &Schema{ID: "ext", Syntax: "proto2", Enums: []E{color}}
	var xs []F
	for i, k := range []string{"int32", "int64", "uint64", "sint32", "sint64", "bool", "float", "double", "fixed32", "fixed64", "string", "bytes"} {
		xs = append(xs, F{Name: "x_" + k, Num: int32(100 + i), Kind: k, Card: "ext:Base"})
	}
	xs = append(xs, F{"x_msg", 120, "msg:Holder", "ext:Base"})
	ext.Messages = []M{{Name: "Base", Fields: []F{{"id", 1, "int32", "opt"}, {"name", 2, "string", "opt"}}, Ranges: [][2]int32{{100, 536870912}}},
		{Name: "Holder", Fields: []F{{"note", 1, "string", "opt"}, {"n", 2, "int64", "opt"}}, Ext: xs}}
	cs = append(cs, ext)
	// a foreign proto2 message type with required fields (marshaled / decoded by its runtime, reached through
	// Encoder.EncodeNested / Decoder.DecodeNested)
	cs = append(cs, &Schema{ID: "reqforeign", Syntax: "proto2", Only: []string{"v1", "v2"}, Imports: []string{"google/protobuf/descriptor.proto"},
		Messages: []M{{Name: "Holder", Fields: []F{{"label", 1, "string", "opt"}, {"part", 2, "wkt:google.protobuf.UninterpretedOption.NamePart", "opt"},
			{"parts", 3, "wkt:google.protobuf.UninterpretedOption.NamePart", "rep"}}}}})
	// a second .proto file with its own Go package whose NAME differs from the last element of its import
	// path (…/dep/v1;depv1); both files are handed to the generator in ONE request (imported file first)
	cs = append(cs, &Schema{ID: "imports", Syntax: "proto3", GenDep: true,
		// (the imported file uses its OWN message and enum types in every position too: a type declared in one file is
		// referenced from both files of the request, from its own Go package first)
		Dep: &Schema{ID: "importsdep", Syntax: "proto3", Enums: []E{{Name: "Shade", Values: []int32{0, 1, 5}}},
			Messages: []M{{Name: "D", Fields: []F{{"n", 1, "int32", "opt"}, {"s", 2, "string", "opt"}}},
				{Name: "Box", Fields: []F{{"d", 1, "msg:D", "opt"}, {"ds", 2, "msg:D", "rep"}, {"shade", 3, "enum:Shade", "opt"}, {"shades", 4, "enum:Shade", "packed"},
					{"by", 5, "msg:D", "map:string"}, {"one", 6, "msg:D", "oneof:pick"}, {"other", 7, "enum:Shade", "oneof:pick"}, {"self", 8, "msg:Box", "opt"}}}}},
		Messages: []M{{Name: "User", Fields: []F{{"id", 1, "int32", "opt"}, {"d", 2, "dep:D", "opt"}, {"ds", 3, "dep:D", "rep"}, {"shade", 4, "depenum:Shade", "opt"}, {"shades", 5, "depenum:Shade", "packed"},
			{"by", 6, "dep:D", "map:string"}, {"one", 7, "dep:D", "oneof:pick"}, {"other", 8, "depenum:Shade", "oneof:pick"}, {"box", 9, "dep:Box", "opt"}}}}})
	// ONE Go package split over two .proto files (both generated in one request): types of the other file are used in
	// every position, and both files carry the features for which the generator emits per-file / per-message helpers
	// (packed enum lists, implicit float fields, required fields, oneofs, maps)
	cs = append(cs, &Schema{ID: "samepkg", Syntax: "proto3", GenDep: true, SamePkg: true, Enums: []E{color},
		Dep: &Schema{ID: "samepkgdep", Syntax: "proto3", Enums: []E{{Name: "Shade", Values: []int32{0, 1, 5}}},
			Messages: []M{{Name: "Money", Fields: []F{{"units", 1, "int64", "opt"}, {"ratio", 2, "double", "opt"}, {"shades", 3, "enum:Shade", "packed"}, {"f", 4, "float", "opt"}}},
				{Name: "Tally", Fields: []F{{"shades", 1, "enum:Shade", "packed"}, {"by", 2, "float", "map:string"}, {"a", 3, "int32", "oneof:pick"}, {"b", 4, "msg:Money", "oneof:pick"}}}}},
		Messages: []M{{Name: "Invoice", Fields: []F{{"id", 1, "int32", "opt"}, {"total", 2, "dep:Money", "opt"}, {"lines", 3, "dep:Money", "rep"}, {"shade", 4, "depenum:Shade", "opt"},
			{"shades", 5, "depenum:Shade", "packed"}, {"by", 6, "dep:Money", "map:string"}, {"one", 7, "dep:Money", "oneof:pick"}, {"other", 8, "depenum:Shade", "oneof:pick"},
			{"colors", 9, "enum:Color", "packed"}, {"ratio", 10, "float", "opt"}}},
			{Name: "Refund", Fields: []F{{"colors", 1, "enum:Color", "packed"}, {"of", 2, "dep:Tally", "opt"}, {"ratio", 3, "double", "opt"}}}}})
	// ONE Go package split over two proto2 files that BOTH declare extensions (inside messages and at file level) of
	// their own messages, generated in one request, the imported file first: whatever the generator collects per file
	// (the extensions known for a message) must be collected again for the second file of the package; an extension of
	// the importing file has a message type of the imported one
	cs = append(cs, &Schema{ID: "samepkgext", Syntax: "proto2", GenDep: true, SamePkg: true,
		Dep: &Schema{ID: "samepkgextdep", Syntax: "proto2",
			Messages: []M{{Name: "PartBase", Fields: []F{{"id", 1, "int32", "opt"}}, Ranges: [][2]int32{{100, 200}}},
				{Name: "PartH", Fields: []F{{"note", 1, "string", "opt"}}, Ext: []F{{"p_int32", 100, "int32", "ext:PartBase"}, {"p_string", 101, "string", "ext:PartBase"},
					{"p_msg", 102, "msg:PartH", "ext:PartBase"}, {"p_sint64_rep", 103, "sint64", "ext:PartBase"}}}},
			FileExt: []F{{"p_top", 110, "fixed64", "ext:PartBase"}}},
		Messages: []M{{Name: "Base", Fields: []F{{"id", 1, "int32", "opt"}, {"name", 2, "string", "opt"}, {"part", 3, "dep:PartBase", "opt"}, {"parts", 4, "dep:PartBase", "rep"}}, Ranges: [][2]int32{{100, 200}}},
			{Name: "H", Fields: []F{{"note", 1, "string", "opt"}}, Ext: []F{{"x_int32", 100, "int32", "ext:Base"}, {"x_string", 101, "string", "ext:Base"}, {"x_msg", 102, "msg:H", "ext:Base"},
				{"x_part", 103, "dep:PartBase", "ext:Base"}, {"x_bytes_rep", 104, "bytes", "ext:Base"}, {"x_bool", 105, "bool", "ext:Base"}}}},
		FileExt: []F{{"x_top", 110, "sint64", "ext:Base"}, {"x_top_part", 111, "dep:PartH", "ext:Base"}}})
	// a foreign message type that only its runtime knows how to marshal (for gogo: plain protoc-gen-gogo output with
	// XXX_Size / XXX_Marshal but no Marshal() / MarshalTo()), in the middle and at the end of the message, in a list,
	// a map and a oneof
	cs = append(cs, &Schema{ID: "foreignplain", Syntax: "proto3", Imports: []string{"google/protobuf/descriptor.proto"},
		Messages: []M{{Name: "Holder", Fields: []F{{"name", 1, "string", "opt"}, {"val", 2, "wkt:google.protobuf.EnumValueDescriptorProto", "opt"}, {"tail", 3, "string", "opt"},
			{"vals", 4, "wkt:google.protobuf.EnumValueDescriptorProto", "rep"}, {"by", 5, "wkt:google.protobuf.EnumValueDescriptorProto", "map:string"},
			{"one", 6, "wkt:google.protobuf.EnumValueDescriptorProto", "oneof:pick"}, {"other", 7, "int32", "oneof:pick"}, {"last", 8, "wkt:google.protobuf.EnumValueDescriptorProto", "opt"}}}}})
	// a file that declares no message at all (an enum only)
	cs = append(cs, &Schema{ID: "enumonly", Syntax: "proto3", Enums: []E{{Name: "Level", Values: []int32{0, 1, 2}}}})
	// a proto2 extension whose type is a message / an enum of an imported file
	cs = append(cs, &Schema{ID: "importsext", Syntax: "proto2",
		Dep:      &Schema{ID: "importsextdep", Syntax: "proto2", Messages: []M{{Name: "D", Fields: []F{{"n", 1, "int32", "opt"}}}}, Enums: []E{{Name: "Shade", Values: []int32{0, 1, 5}}}},
		Messages: []M{{Name: "Base", Fields: []F{{"id", 1, "int32", "opt"}}, Ranges: [][2]int32{{100, 200}}}},
		FileExt:  []F{{"ext_d", 100, "dep:D", "ext:Base"}, {"ext_shade", 101, "depenum:Shade", "ext:Base"}}})
	// foreign messages (well-known types)
	wkt := &Schema{ID: "wkt", Syntax: "proto3", Imports: []string{"google/protobuf/timestamp.proto", "google/protobuf/duration.proto", "google/protobuf/wrappers.proto"}}
	wkt.Messages = []M{{Name: "Event", Fields: []F{{"name", 1, "string", "opt"}, {"at", 2, "wkt:google.protobuf.Timestamp", "opt"}, {"took", 3, "wkt:google.protobuf.Duration", "opt"},
		{"history", 4, "wkt:google.protobuf.Timestamp", "rep"}, {"label", 5, "wkt:google.protobuf.StringValue", "opt"}, {"stamps", 6, "wkt:google.protobuf.Timestamp", "map:string"},
		{"t", 7, "wkt:google.protobuf.Timestamp", "oneof:when"}, {"d", 8, "wkt:google.protobuf.Duration", "oneof:when"}}},
		// messages whose ONLY reference to another package sits in a map value / a oneof member / a list
		{Name: "OnlyMap", Fields: []F{{"stamps", 1, "wkt:google.protobuf.Duration", "map:int32"}}},
		{Name: "OnlyOneof", Fields: []F{{"n", 1, "int32", "oneof:pick"}, {"at", 2, "wkt:google.protobuf.StringValue", "oneof:pick"}}},
		{Name: "OnlyList", Fields: []F{{"ats", 1, "wkt:google.protobuf.Timestamp", "rep"}}}}
	cs = append(cs, wkt)
	// special names and names differing in case
	// a field called "Size" collides with the generated Size() method unless the runtime renames it:
	// only Gogo does (specialname=Size); with the google runtimes such a schema cannot be supported
	cs = append(cs, &Schema{ID: "namesgogo", Syntax: "proto3", Only: []string{"gogo"}, Special: []string{"Size"}, Messages: []M{{Name: "Sized", Fields: []F{{"Size", 1, "int32", "opt"}, {"label", 2, "string", "opt"}}}}})
	// … and so does every other method name of Gogo's own plug-ins (GogoSpecialNames): two of them in one message, and
	// all six, as singular / repeated / map / message-typed fields, spread over two messages (the names
	// are given as several `specialname=` tokens: Variant.Rep)
	cs = append(cs, &Schema{ID: "namesgogo2", Syntax: "proto3", Only: []string{"gogo"}, Special: []string{"ProtoSize", "Size"},
		Messages: []M{{Name: "Sized", Fields: []F{{"Size", 1, "int32", "opt"}, {"proto_size", 2, "sint64", "packed"}, {"label", 3, "string", "opt"}}}}})
	cs = append(cs, &Schema{ID: "namesgogo6", Syntax: "proto3", Only: []string{"gogo"}, Special: GogoSpecialNames,
		Messages: []M{{Name: "Methods", Fields: []F{{"size", 1, "int32", "opt"}, {"equal", 2, "bool", "opt"}, {"go_string", 3, "string", "rep"}, {"marshal_to", 4, "bytes", "opt"},
			{"verbose_equal", 5, "int32", "map:string"}, {"proto_size", 6, "msg:Part", "opt"}, {"label", 7, "string", "opt"}}},
			{Name: "Part", Fields: []F{{"ProtoSize", 1, "uint64", "opt"}, {"Equal", 2, "string", "opt"}, {"GoString", 3, "msg:Part", "rep"}, {"n", 4, "int32", "oneof:pick"}, {"s", 5, "string", "oneof:pick"}}},
			// special names as ONEOF MEMBERS: protoc-gen-gogo derives the wrapper type from the translated field name
			// (<Msg>_<Name>_); finding B34 (the generator used <Msg>_<Name>: did not compile), fixed
			{Name: "Choice", Fields: []F{{"id", 1, "int32", "opt"}, {"Size", 2, "uint64", "oneof:pick"}, {"Equal", 3, "string", "oneof:pick"},
				{"ProtoSize", 4, "msg:Part", "oneof:pick"}, {"plain", 5, "bytes", "oneof:pick"}}}}})
	names := &Schema{ID: "names", Syntax: "proto3"}
	names.Messages = []M{{Name: "Odd", Fields: []F{{"reset_", 3, "bool", "opt"}, {"string_", 4, "string", "opt"}, {"size_of", 5, "bytes", "opt"}, {"unmarshal_", 6, "int32", "rep"}}},
		{Name: "lower", Fields: []F{{"a", 1, "int32", "opt"}}}}
	cs = append(cs, names)
	// risky single-feature schemas (each isolates one snippet arm)
	cs = append(cs, &Schema{ID: "mapbool", Syntax: "proto3", Messages: []M{{Name: "B", Fields: []F{{"flags", 1, "string", "map:bool"}, {"n", 2, "int32", "opt"}}}}})
	cs = append(cs, &Schema{ID: "extenum", Syntax: "proto2", Enums: []E{color}, Messages: []M{{Name: "Base", Fields: []F{{"id", 1, "int32", "opt"}}, Ranges: [][2]int32{{100, 200}}},
		{Name: "H", Ext: []F{{"x_enum", 100, "enum:Color", "ext:Base"}}}}})
	cs = append(cs, &Schema{ID: "extu32", Syntax: "proto2", Messages: []M{{Name: "Base", Fields: []F{{"id", 1, "int32", "opt"}}, Ranges: [][2]int32{{100, 200}}},
		{Name: "H", Ext: []F{{"x_uint32", 100, "uint32", "ext:Base"}}}}})
	cs = append(cs, &Schema{ID: "extsfixed", Syntax: "proto2", Messages: []M{{Name: "Base", Fields: []F{{"id", 1, "int32", "opt"}}, Ranges: [][2]int32{{100, 200}}},
		{Name: "H", Ext: []F{{"x_sfixed32", 100, "sfixed32", "ext:Base"}, {"x_sfixed64", 101, "sfixed64", "ext:Base"}}}}})
	// extensions declared at file level and inside a nested message (the other two places the language allows)
	cs = append(cs, &Schema{ID: "extscope", Syntax: "proto2",
		Messages: []M{{Name: "Base", Fields: []F{{"id", 1, "int32", "opt"}}, Ranges: [][2]int32{{100, 200}}},
			{Name: "Outer", Fields: []F{{"n", 1, "int32", "opt"}}, Nested: []M{{Name: "In", Fields: []F{{"s", 1, "string", "opt"}},
				Ext: []F{{"x_nested", 101, "string", "ext:Base"}},
				// … and two levels down
				Nested: []M{{Name: "Deep", Fields: []F{{"v", 1, "int32", "opt"}}, Ext: []F{{"x_deep", 103, "sint32", "ext:Base"}, {"x_deep_b", 104, "bytes", "ext:Base"}}}}}}}},
		FileExt: []F{{"x_top", 100, "int64", "ext:Base"}, {"x_top_msg", 102, "msg:Outer", "ext:Base"}}})
	// repeated proto2 extensions: every kind, next to a singular one and a list of the extendee itself (finding B32)
	extrep := &Schema{ID: "extrep", Syntax: "proto2", Enums: []E{color}}
	var rxs []F
	for i, k := range ScalarKinds {
		rxs = append(rxs, F{Name: "x_" + k + "_rep", Num: int32(100 + i), Kind: k, Card: "ext:Base"})
	}
	rxs = append(rxs, F{"x_enum_rep", 120, "enum:Color", "ext:Base"}, F{"x_msg_rep", 121, "msg:H", "ext:Base"}, F{"x_one", 122, "int32", "ext:Base"}, F{"x_self_rep", 123, "msg:Base", "ext:Base"})
	extrep.Messages = []M{{Name: "Base", Fields: []F{{"id", 1, "int32", "opt"}}, Ranges: [][2]int32{{100, 200}}},
		{Name: "H", Fields: []F{{"note", 1, "string", "opt"}}, Ext: rxs}}
	cs = append(cs, extrep)
	// repeated proto2 extensions declared [packed=true]: every packable kind (varint, zig-zag, fixed-width, bool, enum), declared
	// inside a message and at file level, next to an undeclared-packed one; the extendee also sits INSIDE other messages (a
	// singular field, a list, a map value) so that a nested message carries the extensions
	extpacked := &Schema{ID: "extpacked", Syntax: "proto2", Enums: []E{color}}
	var pxs []F
	for i, k := range ScalarKinds {
		if isPackable(k) {
			pxs = append(pxs, F{Name: "x_" + k + "_packed_rep", Num: int32(100 + i), Kind: k, Card: "ext:Base"})
		}
	}
	pxs = append(pxs, F{"x_enum_packed_rep", 120, "enum:Color", "ext:Base"}, F{"x_plain_rep", 121, "int32", "ext:Base"}, F{"x_self_rep", 123, "msg:Base", "ext:Base"})
	extpacked.Messages = []M{{Name: "Base", Fields: []F{{"id", 1, "int32", "opt"}}, Ranges: [][2]int32{{100, 200}}},
		{Name: "H", Fields: []F{{"note", 1, "string", "opt"}}, Ext: pxs},
		{Name: "Holder", Fields: []F{{"base", 1, "msg:Base", "opt"}, {"bases", 2, "msg:Base", "rep"}, {"by", 3, "msg:Base", "map:string"}, {"n", 4, "int32", "opt"}}}}
	extpacked.FileExt = []F{{"x_top_sint64_packed_rep", 130, "sint64", "ext:Base"}, {"x_top_fixed32_packed_rep", 131, "fixed32", "ext:Base"}, {"x_top_string_rep", 132, "string", "ext:Base"}}
	cs = append(cs, extpacked)
	// messages that share a SHORT name in different scopes and differ in what the generator decides per message
	// (required fields, oneofs, maps, packed enums, implicit floats): Order.Item has required fields, Refund.Item none, …
	cs = append(cs, &Schema{ID: "shortnames", Syntax: "proto2", Enums: []E{color}, Messages: []M{
		{Name: "Order", Fields: []F{{"item", 1, "msg:Order.Item", "opt"}, {"items", 2, "msg:Order.Item", "rep"}, {"part", 3, "msg:Order.Part", "opt"}},
			Nested: []M{{Name: "Item", Fields: []F{{"sku", 1, "string", "req"}, {"qty", 2, "int32", "req"}, {"note", 3, "string", "opt"}}},
				{Name: "Part", Fields: []F{{"n", 1, "int32", "opt"}}}}},
		{Name: "Refund", Fields: []F{{"item", 1, "msg:Refund.Item", "opt"}, {"part", 2, "msg:Refund.Part", "opt"}, {"parts", 3, "msg:Refund.Part", "rep"}},
			Nested: []M{{Name: "Item", Fields: []F{{"reason", 1, "string", "opt"}, {"kinds", 2, "enum:Color", "packed"}}},
				{Name: "Part", Fields: []F{{"id", 1, "int64", "req"}, {"a", 2, "int32", "oneof:pick"}, {"b", 3, "string", "oneof:pick"}}}}},
		{Name: "Item", Fields: []F{{"top", 1, "bool", "req"}, {"by", 2, "int32", "map:string"}}}}})
	// what the generator decides PER FILE by scanning the messages (imports of "strings" / "math", helpers): the only
	// message with the feature sits two and three levels deep, last in the file
	cs = append(cs, &Schema{ID: "deepreq", Syntax: "proto2", Messages: []M{{Name: "Plain", Fields: []F{{"n", 1, "int32", "opt"}}},
		{Name: "Outer", Fields: []F{{"n", 1, "int32", "opt"}, {"mid", 2, "msg:Outer.Mid", "opt"}}, Nested: []M{{Name: "Mid", Fields: []F{{"in", 1, "msg:Outer.Mid.Inner", "opt"}},
			Nested: []M{{Name: "Inner", Fields: []F{{"id", 1, "int32", "req"}, {"deep", 2, "msg:Outer.Mid.Inner.Deepest", "opt"}},
				Nested: []M{{Name: "Deepest", Fields: []F{{"name", 1, "string", "req"}}}}}}}}}}})
	cs = append(cs, &Schema{ID: "deepfloat", Syntax: "proto3", Messages: []M{{Name: "Plain", Fields: []F{{"n", 1, "int32", "opt"}}},
		{Name: "Outer", Fields: []F{{"n", 1, "int32", "opt"}, {"mid", 2, "msg:Outer.Mid", "opt"}}, Nested: []M{{Name: "Mid", Fields: []F{{"in", 1, "msg:Outer.Mid.Inner", "opt"}},
			Nested: []M{{Name: "Inner", Fields: []F{{"s", 1, "string", "opt"}, {"deep", 2, "msg:Outer.Mid.Inner.Deepest", "opt"}},
				Nested: []M{{Name: "Deepest", Fields: []F{{"f", 1, "float", "opt"}, {"d", 2, "double", "opt"}}}}}}}}}}})
	// proto2 declared defaults, on optional fields and on extensions (all kinds that can have one): an unset field /
	// extension must stay unset on the wire whatever its getter answers
	cs = append(cs, &Schema{ID: "defaults", Syntax: "proto2", Enums: []E{color}, Messages: []M{
		{Name: "Base", Fields: []F{{"id", 1, "int32=7", "opt"}, {"name", 2, "string=anon", "opt"}, {"on", 3, "bool=true", "opt"}, {"ratio", 4, "double=2.5", "opt"},
			{"tint", 5, "enum:Color=COLOR_V2", "opt"}, {"blob", 6, "bytes=xyz", "opt"}, {"big", 7, "uint64=18446744073709551615", "opt"}, {"neg", 8, "sint32=-5", "opt"},
			{"f", 9, "float=-0.5", "opt"}, {"fx", 10, "fixed32=9", "opt"}, {"plain", 11, "int32", "opt"}}, Ranges: [][2]int32{{100, 200}}},
		{Name: "H", Ext: []F{{"x_retries", 100, "int32=5", "ext:Base"}, {"x_region", 101, "string=eu", "ext:Base"}, {"x_flag", 102, "bool=true", "ext:Base"},
			{"x_tint", 103, "enum:Color=COLOR_V1", "ext:Base"}, {"x_ratio", 104, "double=1.5", "ext:Base"}, {"x_blob", 105, "bytes=ab", "ext:Base"},
			{"x_z", 106, "sint64=-9", "ext:Base"}, {"x_u", 107, "uint32=3", "ext:Base"}, {"x_plain", 108, "int64", "ext:Base"}}}},
		FileExt: []F{{"x_top", 120, "fixed64=11", "ext:Base"}}})
	// extension RANGES: bounded ranges, a range of a single number, several ranges per message, "to max", ranges wedged
	// between ordinary field numbers; an extension at the first and at the last number of every range and at 2^29-1
	// (the end of a range is exclusive in descriptor.proto and protoreflect.FieldRanges, inclusive in the v1-style
	// ExtensionRange{Start, End} of gogo / golang: every place that converts or tests a range has a boundary to get
	// wrong); a second and a third extendee whose extensions reuse the same numbers with other types
	cs = append(cs, &Schema{ID: "extranges", Syntax: "proto2", Enums: []E{color},
		Messages: []M{
			{Name: "Bounded", Fields: []F{{"id", 1, "int32", "opt"}, {"name", 2, "string", "opt"}}, Ranges: [][2]int32{{100, 200}, {300, 301}, {1000, 536870912}}},
			{Name: "Other", Fields: []F{{"id", 1, "int32", "opt"}}, Ranges: [][2]int32{{100, 200}, {536870911, 536870912}}},
			{Name: "Tiny", Fields: []F{{"id", 1, "int32", "opt"}, {"name", 3, "string", "opt"}, {"tail", 6, "bool", "opt"}}, Ranges: [][2]int32{{2, 3}, {4, 6}}},
			{Name: "H", Fields: []F{{"note", 1, "string", "opt"}}, Ext: []F{
				{"b_first", 100, "int32", "ext:Bounded"}, {"b_mid", 150, "string", "ext:Bounded"}, {"b_msg", 198, "msg:H", "ext:Bounded"}, {"b_last", 199, "sint64", "ext:Bounded"},
				{"b_single", 300, "bool", "ext:Bounded"}, {"b_lo", 1000, "bytes", "ext:Bounded"}, {"b_enum", 1001, "enum:Color", "ext:Bounded"},
				{"b_below_max", 536870910, "double", "ext:Bounded"}, {"b_max", 536870911, "uint64", "ext:Bounded"},
				{"o_first", 100, "string", "ext:Other"}, {"o_max", 536870911, "sint32", "ext:Other"},
				{"t_two", 2, "int32", "ext:Tiny"}, {"t_four", 4, "string", "ext:Tiny"}, {"t_five", 5, "fixed32", "ext:Tiny"}}}},
		FileExt: []F{{"o_last", 199, "int32", "ext:Other"}, {"o_mid_msg", 150, "msg:H", "ext:Other"}}})
	// `reserved` declarations (numbers and names of deleted fields): a single number, short ranges between declared
	// fields, the number before the first field, a range next to the last field, `to max`, the last number alone;
	// in a top-level message, in nested messages that are used as singular field, list element and map value; proto2
	// with required fields, and next to both ends of an extension range. A reserved number is an UNDEFINED number like
	// any other: a newer or older writer may still send it, and it travels as an unknown field.
	cs = append(cs, &Schema{ID: "reserved", Syntax: "proto3", Messages: []M{
		{Name: "Retired", Fields: []F{{"id", 1, "int32", "opt"}, {"name", 4, "string", "opt"}, {"tags", 10, "string", "rep"}, {"sub", 11, "msg:Retired.Part", "opt"},
			{"parts", 12, "msg:Retired.Part", "rep"}, {"by", 13, "msg:Retired.Part", "map:string"}, {"nums", 14, "sint32", "packed"}},
			Reserved: [][2]int32{{2, 4}, {5, 6}, {7, 10}, {15, 16}, {100, 200}, {1000, 536870912}}, ReservedNames: []string{"old", "older"},
			Nested: []M{{Name: "Part", Fields: []F{{"v", 6, "sint64", "opt"}, {"s", 9, "string", "opt"}}, Reserved: [][2]int32{{1, 6}, {7, 8}, {10, 11}}, ReservedNames: []string{"w"}}}},
		{Name: "Gaps", Fields: []F{{"a", 2, "int32", "opt"}, {"b", 5, "int64", "packed"}, {"c", 20, "bytes", "opt"}, {"one", 21, "int32", "oneof:pick"}, {"other", 22, "string", "oneof:pick"}},
			Reserved: [][2]int32{{1, 2}, {3, 5}, {6, 7}, {536870911, 536870912}}},
		// nothing but reserved numbers
		{Name: "AllGone", Reserved: [][2]int32{{1, 100}}, ReservedNames: []string{"everything"}}}})
	cs = append(cs, &Schema{ID: "reserved2", Syntax: "proto2", Messages: []M{
		{Name: "Base", Fields: []F{{"id", 1, "int32", "req"}, {"note", 3, "string", "opt"}, {"kid", 300, "msg:Base.Kid", "opt"}, {"kids", 301, "msg:Base.Kid", "rep"}},
			Ranges: [][2]int32{{100, 200}}, Reserved: [][2]int32{{2, 3}, {4, 100}, {200, 300}, {302, 303}, {536870911, 536870912}}, ReservedNames: []string{"gone"},
			Nested: []M{{Name: "Kid", Fields: []F{{"n", 2, "int64", "req"}, {"s", 4, "string", "opt"}}, Reserved: [][2]int32{{1, 2}, {3, 4}, {5, 1000}}}}},
		{Name: "H", Fields: []F{{"note", 11, "string", "opt"}}, Reserved: [][2]int32{{1, 11}},
			Ext: []F{{"x_first", 100, "int32", "ext:Base"}, {"x_last", 199, "string", "ext:Base"}, {"x_kid", 150, "msg:Base.Kid", "ext:Base"}}}}})
	// two messages whose short names coincide when lower-cased: one output file name for both with
	// filepermessage=true (open finding B15)
	cs = append(cs, &Schema{ID: "samename", Syntax: "proto3", Messages: []M{{Name: "Outer", Fields: []F{{"a", 1, "int32", "opt"}},
		Nested: []M{{Name: "Inner", Fields: []F{{"b", 1, "string", "opt"}}}}}, {Name: "Inner", Fields: []F{{"c", 1, "bool", "opt"}}}}})
	return cs
}
