package genpipe

import (
	"fmt"
	"testing"
)

func TestSmoke(t *testing.T) {
	pl, err := BuildPlugins("/verif/.cache/bin")
	if err != nil {
		t.Fatal(err)
	}
	s := &Schema{ID: "s0", Syntax: "proto3", Enums: []E{{Name: "Color", Values: []int32{0, 1, -1}}},
		Messages: []M{{Name: "A", Fields: []F{{"id", 1, "int32", "opt"}, {"name", 2, "string", "opt"}, {"tags", 3, "sint64", "packed"}, {"c", 4, "enum:Color", "opt"},
			{"kv", 5, "string", "map:int32"}, {"sub", 6, "msg:A", "opt"}, {"x", 7, "bool", "oneof:which"}, {"y", 8, "bytes", "oneof:which"}, {"o", 9, "uint32", "p3opt"}}}}}
	for _, v := range []Variant{{Runtime: "v2", FM: true}, {Runtime: "gogo", FM: true}, {Runtime: "gogo"}, {Runtime: "v1", FM: true, PerMessage: true}} {
		g := Generate(pl, s, v)
		fmt.Println(v.Name(), "err:", g.GenError, "files:", len(g.Files), g.FMFiles)
	}
}
