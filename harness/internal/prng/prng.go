// Package prng is the single source of randomness of the harness (splitmix64), so that a
// disagreement replays exactly from VERIF_SEED.
package prng

type Rng struct{ s uint64 }

func New(seed uint64) *Rng { return &Rng{s: seed*0x9E3779B97F4A7C15 + 0x1234567} }

func (r *Rng) U64() uint64 {
	r.s += 0x9E3779B97F4A7C15
	z := r.s
	z = (z ^ (z >> 30)) * 0xBF58476D1CE4E5B9
	z = (z ^ (z >> 27)) * 0x94D049BB133111EB
	return z ^ (z >> 31)
}

// Intn returns a value in [0,n).
func (r *Rng) Intn(n int) int {
	if n <= 0 {
		return 0
	}
	return int(r.U64() % uint64(n))
}

func (r *Rng) Bool() bool { return r.U64()&1 == 1 }

// Chance returns true with probability num/den.
func (r *Rng) Chance(num, den int) bool { return r.Intn(den) < num }

// Bytes returns n random bytes.
func (r *Rng) Bytes(n int) []byte {
	b := make([]byte, n)
	for i := range b {
		b[i] = byte(r.U64())
	}
	return b
}

// Fork derives an independent generator.
func (r *Rng) Fork() *Rng { return New(r.U64()) }

// U64Interesting returns 64-bit values biased to the boundaries of every bit-length class.
func (r *Rng) U64Interesting() uint64 {
	switch r.Intn(6) {
	case 0:
		k := uint(r.Intn(65))
		var v uint64
		if k == 64 {
			v = 0
		} else {
			v = uint64(1) << k
		}
		switch r.Intn(3) {
		case 0:
			return v - 1
		case 1:
			return v
		default:
			return v + 1
		}
	case 1:
		return uint64(r.Intn(300))
	case 2:
		return ^uint64(r.Intn(300))
	case 3:
		k := uint(r.Intn(64))
		return r.U64() >> k
	case 4:
		k := uint(r.Intn(64))
		return ^(r.U64() >> k)
	default:
		return r.U64()
	}
}
