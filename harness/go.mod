module csverif

go 1.21

require (
	github.com/CrowdStrike/csproto v0.0.0
	github.com/CrowdStrike/csproto/example v0.0.0
	github.com/prometheus/client_model v0.0.0-20190812154241-14fe0d1b01d4
	google.golang.org/protobuf v1.36.4
)

require (
	github.com/gogo/protobuf v1.3.2
	github.com/golang/protobuf v1.5.4
)

replace github.com/CrowdStrike/csproto => /repo

replace github.com/CrowdStrike/csproto/example => /repo/example
