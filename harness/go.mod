module csverif

go 1.21

require (
	github.com/CrowdStrike/csproto v0.0.0
	github.com/CrowdStrike/csproto/example v0.0.0
	google.golang.org/protobuf v1.36.4
)

require (
	github.com/gogo/protobuf v1.3.2 // indirect
	github.com/golang/protobuf v1.5.4 // indirect
)

replace github.com/CrowdStrike/csproto => /repo

replace github.com/CrowdStrike/csproto/example => /repo/example
