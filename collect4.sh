#!/bin/bash
# development helper: take the deliverables of a seed sub-agent (${SRC:-/tmp/seed4}/<prop>/out) into seeded/<prop>-<${OFFSET:-9}+N>/,
# remove its worktree, and evaluate the changes (repository tests + the property's quick check) in scratch copies.
for prop in "$@"; do
  src=${SRC:-/tmp/seed4}/$prop/out; ids=()
  for n in 1 2 3; do
    [ -s $src/patch-$n.diff ] || continue
    id=$prop-$((${OFFSET:-9}+n)); mkdir -p /verif/seeded/$id
    cp $src/patch-$n.diff /verif/seeded/$id/patch.diff
    cp $src/demo-$n.md /verif/seeded/$id/demo.md 2>/dev/null
    for f in $src/demo-$n-* $src/demo-${n}_* $src/demo$n*; do [ -f "$f" ] && cp "$f" /verif/seeded/$id/ ; done 2>/dev/null
    ids+=($id)
  done
  git -C /repo worktree remove --force ${SRC:-/tmp/seed4}/$prop 2>/dev/null; rm -rf ${SRC:-/tmp/seed4}/$prop
  echo "collected ${ids[*]}"
  all+=("${ids[@]}")
done
[ ${#all[@]} -gt 0 ] && cd /verif && TESTS=1 ./pseed.sh -j ${J:-3} "${all[@]}" | cut -c1-260
