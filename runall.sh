#!/bin/bash
# development helper: run every registered quick (or $TIER) check on /repo as it is (must be clean) and summarise.
cd "$(dirname "$0")"
if [ -n "$(git -C /repo status --porcelain)" ]; then echo "/repo is not clean"; exit 2; fi
tier=${TIER:-quick}
rc=0
for p in C01 C02 C03 C04 C05 C06 C07 C08 C09 C10 C11 C12 C13 C14 C15 C16 C17 C18 C19 C20; do
  out=$(./check $p --tier $tier 2>&1); st=$?
  echo "$p exit=$st $(echo "$out" | grep -E '^VIOLATION|tier=' | tr '\n' ' ' | cut -c1-220)"
  [ $st != 0 ] && rc=1
done
exit $rc
