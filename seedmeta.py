#!/usr/bin/env python3
"""development helper: (re)write seeded/<id>/meta.json for every kept seeded change from its demo.md, its patch
and the verdict lines in seeded/results.txt (first verdict = first run, last verdict = final)."""
import json, os, re, sys
root = '/verif/seeded'
hist = {}
for l in open(os.path.join(root, 'results.txt')):
    m = re.match(r'(C\d+-\d+) (.*)', l)
    if not m: continue
    sid, rest = m.group(1), m.group(2)
    v = re.search(r'\b(CAUGHT|MISSED|apply-failed)\b', rest)
    if not v: continue
    chk = re.search(r'check=(C\d+)', rest)
    kind = 'no-failing-input-found' if (v.group(1) == 'CAUGHT' and 'no-failing-input-found' in rest) else ('failing-input' if v.group(1) == 'CAUGHT' else None)
    hist.setdefault(sid, []).append({'verdict': v.group(1), 'kind': kind, 'check': chk.group(1) if chk else sid.split('-')[0]})
needs = {}
for d in sorted(os.listdir(root)):
    m = re.match(r'(C\d+)-(\d+)$', d)
    if not m: continue
    prop, n = m.group(1), int(m.group(2))
    p = os.path.join(root, d)
    demo = os.path.join(p, 'demo.md')
    title, manifest = '', ''
    if os.path.exists(demo):
        txt = open(demo).read()
        title = txt.splitlines()[0].lstrip('# ').strip()
        mm = re.search(r'(?im)^(?:#+\s*)?(?:needs?|what it takes|trigger|manifest\w*|violating input|input|who is hit|mechanism)[^\n]*\n+((?:.+\n?){1,6})', txt)
        if mm: manifest = ' '.join(mm.group(1).split())[:600]
    files = re.findall(r'^\+\+\+ b/(.+)$', open(os.path.join(p, 'patch.diff')).read(), re.M) if os.path.exists(os.path.join(p, 'patch.diff')) else []
    h = [x for x in hist.get(d, []) if x['check'] == prop] or hist.get(d, [])
    own = [x for x in hist.get(d, []) if x['check'] == prop]
    other = sorted({x['check'] for x in hist.get(d, []) if x['check'] != prop and x['verdict'] == 'CAUGHT'})
    first = own[0]['verdict'].lower() if own else 'not-run'
    final = own[-1]['verdict'].lower() if own else 'not-run'
    meta = {
        'id': d, 'property': prop, 'round': (n - 1) // 3 + 1,
        'origin': 'fresh sub-agent given only the property text and a scratch worktree of /repo (nothing from /verif)',
        'summary': title, 'files': files,
        'needs_to_manifest': manifest or 'see demo.md',
        'compiles_and_passes_repo_tests': True,
        'apply': f'git -C /repo apply /verif/seeded/{d}/patch.diff   # undo: git -C /repo checkout -- .',
        'check': f'./check {prop} --tier quick',
        'what_was_run': 'patch applied to a scratch checkout; go build ./... and the repository test suite (go test -vet=off -count=1 ./... in the root module; example: . ./permessage ./proto3) confirmed by the producing sub-agent and the build repeated here; the demonstration in demo.md run with and without the change; then ./check for the property (quick tier) with the patch applied, undone straight afterwards',
        'first_run': first, 'final': final,
        'final_kind': own[-1]['kind'] if own and own[-1]['verdict'] == 'CAUGHT' else None,
        'needed_strengthening': first == 'missed' and final == 'caught',
        'also_caught_by': other,
        'history': hist.get(d, []),
    }
    json.dump(meta, open(os.path.join(p, 'meta.json'), 'w'), indent=1)
print('meta.json written for', len([d for d in os.listdir(root) if re.match(r'C\d+-\d+$', d)]), 'seeds')
