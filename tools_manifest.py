#!/usr/bin/env python3
"""helper: register / update a check in MANIFEST.json:  tools_manifest.py <id> <json-file-with text,note,technique,ref>"""
import json,sys
pid=sys.argv[1]; d=json.load(open(sys.argv[2]))
m=json.load(open('/verif/MANIFEST.json'))
m['checks']=[c for c in m['checks'] if c['property_id']!=pid]
m['checks'].append({"property_id":pid,"quick_cmd":f"./check {pid} --tier quick","thorough_cmd":f"./check {pid} --tier thorough",
  "evidence_file":f"/verif/evidence/{pid}.json","replay_cmd_template":f"./check {pid} --tier quick  # replay file {{path}} names the failing input / broken obligation","engine":"lean-proof+correspondence",
  "level_claimed":{"category":"proof","text":d['text'],"design_ref":d['ref']},"level_note":d['note'],"technique":d['technique']})
m['not_applicable']=[n for n in m['not_applicable'] if n['property_id']!=pid]
m['checks'].sort(key=lambda c:c['property_id'])
m['engines'][0]['serves_properties']=[c['property_id'] for c in m['checks']]
json.dump(m,open('/verif/MANIFEST.json','w'),indent=1)
for f in d.get('findings',[]):
    k=json.load(open('/verif/known_findings.json'))
    k['findings']=[x for x in k['findings'] if x['id']!=f['id']]+[f]
    json.dump(k,open('/verif/known_findings.json','w'),indent=1)
