#!/bin/bash
# development helper (not a registered check): confirm a seed sub-agent's demonstration in ITS scratch worktree:
#   ./demorun.sh <worktree> <n>      runs the commands of the header comment of <worktree>/out/demo-<n>*go.txt
# once on the clean worktree and once with out/patch-<n>.diff applied; prints the two exit states and the last lines.
export GOFLAGS=-mod=mod GOPROXY=off GOSUMDB=off GOTOOLCHAIN=local
W=$1; n=$2; cd $W || exit 2
demo=$(ls out/demo-$n*go.txt 2>/dev/null | head -1); [ -f "$demo" ] || { echo "no demo $n"; exit 2; }
awk '/^package /{exit} /^\/\/\t/{sub(/^\/\/\t/,""); print}' "$demo" | grep -v '^export ' | grep -v 'git apply' | grep -v 'git checkout' | grep -v 'git stash' | sed 's/[[:space:]]*# .*$//' > /tmp/demo-$$.sh
run() { timeout 600 bash /tmp/demo-$$.sh > /tmp/demo-$$.out 2>&1; echo "exit=$? $(grep -ciE 'FAIL|VIOLATION|WRONG|MISMATCH|panic|NO ERROR' /tmp/demo-$$.out) bad-lines :: $(tail -2 /tmp/demo-$$.out | tr '\n' ' ' | cut -c1-160)"; }
git checkout -q -- . ; git clean -fdq -e out
echo "clean:   $(run)"
git checkout -q -- . ; git clean -fdq -e out
git apply --whitespace=nowarn out/patch-$n.diff || { echo "apply failed"; exit 1; }
echo "patched: $(run)"
git checkout -q -- . ; git clean -fdq -e out
rm -f /tmp/demo-$$.sh /tmp/demo-$$.out
