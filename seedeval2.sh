#!/bin/bash
# development helper (not a registered check): apply each seeded patch to /repo, confirm it builds and
# passes the repository's tests, run the property's check, record the verdict, undo.
#   ./seedeval.sh <seed-dir> <property> [tier]      e.g. ./seedeval.sh /tmp/seed-C01/out C01 quick
export GOFLAGS=-mod=mod GOPROXY=off GOSUMDB=off GOTOOLCHAIN=local
dir=$1; prop=$2; tier=${3:-quick}
mkdir -p /verif/seeded
for patch in $dir/patch-*.diff; do
  n=$(basename $patch .diff | sed 's/patch-//')
  id="$prop-$((n+3))"
  git -C /repo checkout -q -- . ; git -C /repo clean -fdq
  if ! git -C /repo apply --whitespace=nowarn $patch 2>/dev/null; then echo "$id apply-failed" | tee -a /verif/seeded/results.txt; continue; fi
  tests=ok
  (cd /repo && go build ./... && go test -vet=off -count=1 ./... ) >/tmp/seedeval-test.log 2>&1 || tests=FAIL
  (cd /repo/example && go build ./... && go test -vet=off -count=1 . ./permessage ./proto3) >>/tmp/seedeval-test.log 2>&1 || tests=FAIL
  out=$(cd /verif && timeout 1800 ./check $prop --tier $tier 2>&1 | grep -E "VIOLATION|KNOWN-FINDING|tier=" | tr '\n' ' ' | cut -c1-400)
  verdict=MISSED; echo "$out" | grep -q "VIOLATION property=$prop" && verdict=CAUGHT
  kind=failing-input; echo "$out" | grep -q "no-failing-input-found" && kind=no-failing-input-found
  echo "$id tests=$tests tier=$tier $verdict $kind :: $out" | tee -a /verif/seeded/results.txt
  if [ -f /verif/replays/$prop-1.json ]; then mkdir -p /verif/seeded/$id; jq -c '{kind, broken: .broken_obligations, first: (.violations[0] // .disagreements[0] // null)}' /verif/replays/$prop-1.json 2>/dev/null | cut -c1-1500 > /verif/seeded/$id/check-output.json; fi
  mkdir -p /verif/seeded/$id; cp $patch /verif/seeded/$id/patch.diff; cp $dir/demo-$n.md /verif/seeded/$id/demo.md 2>/dev/null
  git -C /repo checkout -q -- . ; git -C /repo clean -fdq
done
