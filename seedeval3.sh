#!/bin/bash
# development helper (third round): like seedeval.sh, ids continue at <prop>-7; the repository's test suite
# was already run by the sub-agent on each patch, here only the build is repeated.
export GOFLAGS=-mod=mod GOPROXY=off GOSUMDB=off GOTOOLCHAIN=local
dir=$1; prop=$2; tier=${3:-quick}
for patch in $dir/patch-*.diff; do
  [ -f "$patch" ] || continue
  n=$(basename $patch .diff | sed 's/patch-//')
  id="$prop-$((n+6))"
  git -C /repo checkout -q -- . ; git -C /repo clean -fdq
  if ! git -C /repo apply --whitespace=nowarn $patch 2>/dev/null; then echo "$id apply-failed" | tee -a /verif/seeded/results.txt; continue; fi
  tests=ok
  (cd /repo && go build ./... ) >/tmp/seedeval-test.log 2>&1 || tests=FAIL
  out=$(cd /verif && timeout 1800 ./check $prop --tier $tier 2>&1 | grep -E "VIOLATION|KNOWN-FINDING|tier=" | tr '\n' ' ' | cut -c1-400)
  verdict=MISSED; echo "$out" | grep -q "VIOLATION property=$prop" && verdict=CAUGHT
  kind=failing-input; echo "$out" | grep -q "no-failing-input-found" && kind=no-failing-input-found
  echo "$id tests=$tests tier=$tier $verdict $kind :: $out" | tee -a /verif/seeded/results.txt
  mkdir -p /verif/seeded/$id; cp $patch /verif/seeded/$id/patch.diff; cp $dir/demo-$n.md /verif/seeded/$id/demo.md 2>/dev/null
  if [ -f /verif/replays/$prop-1.json ] && [ $verdict = CAUGHT ]; then jq -c '{kind, broken: .broken_obligations, first: (.violations[0] // .disagreements[0] // null)}' /verif/replays/$prop-1.json 2>/dev/null | cut -c1-1500 > /verif/seeded/$id/check-output.json; fi
  git -C /repo checkout -q -- . ; git -C /repo clean -fdq
done
