#!/bin/bash
# Build everything the checks need, offline, from files on disk only.
set -e
cd "$(dirname "$0")"
export GOFLAGS=-mod=mod GOPROXY=off GOSUMDB=off GOTOOLCHAIN=local
(cd lean && lake build 2>&1 | tail -5)
