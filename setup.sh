#!/bin/bash
# Build everything the checks need, offline, from files on disk only.
set -e
cd "$(dirname "$0")"
export GOFLAGS=-mod=mod GOPROXY=off GOSUMDB=off GOTOOLCHAIN=local
mkdir -p harness/bin .cache replays evidence
(cd harness && cat /repo/go.sum /repo/example/go.sum | sort -u > go.sum && go build -tags verif -o bin/extract ./cmd/extract && go build -tags verif -o bin/corr ./cmd/corr)
./harness/bin/extract -repo "${VERIF_REPO:-/repo}" -out "$PWD/lean/Csproto/Generated" >/dev/null
(cd lean && lake build 2>&1 | tail -3)
