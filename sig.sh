#!/bin/bash
# development helper: ./sig.sh C05  -> run the property without Lean and list violation signatures
cd /verif && ./harness/bin/corr $1 --no-lean ${2:+--tier $2} 2>&1 | tail -1
jq -r '(.coverage.violation_signatures // {}) | to_entries[] | "\(.value) \(.key)"' evidence/$1.json | sed 's/\[\(.\{0,60\}\).*/[\1/' | sort -rn | head -${N:-40}
