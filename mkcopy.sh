#!/bin/bash
# development helper (not a registered check): make a scratch pair <dir>/{verif,repo} — a copy of /verif (with its build
# output) whose harness builds against a detached git worktree of /repo — so that work on the machinery, or the evaluation of
# a seeded change, never touches /repo or /verif.   ./mkcopy.sh <dir>       (remove: ./mkcopy.sh -r <dir>)
# In the copy run checks as:   cd <dir>/verif && VERIF_DIR=<dir>/verif VERIF_REPO=<dir>/repo ./check Cxx --tier quick
if [ "$1" = "-r" ]; then git -C /repo worktree remove --force "$2/repo" 2>/dev/null; rm -rf "$2"; git -C /repo worktree prune; exit 0; fi
d="$1"; mkdir -p "$d" || exit 1
git -C /repo worktree add -q --detach "$d/repo" HEAD || exit 1
rsync -a --exclude .git --exclude replays --exclude 'seeded/*/demo*' /verif/ "$d/verif/"
sed -i "s#=> /repo#=> $d/repo#" "$d/verif/harness/go.mod"
git -C /verif rev-parse HEAD > "$d/BASE"
echo "export VERIF_DIR=$d/verif VERIF_REPO=$d/repo GOFLAGS=-mod=mod GOPROXY=off GOSUMDB=off GOTOOLCHAIN=local" > "$d/env.sh"
echo "$d ready (base $(cat $d/BASE))"
