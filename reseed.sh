#!/bin/bash
# development helper (not a registered check): re-evaluate kept seeded changes.
#   ./reseed.sh <seed-id>... [-- <property-override>]    e.g. ./reseed.sh C16-7 C16-8   or   ./reseed.sh C13-7 -- C14
# applies seeded/<id>/patch.diff to /repo, confirms the build, runs ./check <property> --tier $TIER (default quick),
# prints CAUGHT/MISSED (+ kind) and undoes the change. Verdict lines are appended to seeded/results.txt.
export GOFLAGS=-mod=mod GOPROXY=off GOSUMDB=off GOTOOLCHAIN=local
tier=${TIER:-quick}
ids=(); over=""
while [ $# -gt 0 ]; do if [ "$1" = "--" ]; then over="$2"; shift 2; else ids+=("$1"); shift; fi; done
for id in "${ids[@]}"; do
  prop=${over:-${id%%-*}}
  patch=/verif/seeded/$id/patch.diff
  git -C /repo checkout -q -- . ; git -C /repo clean -fdq
  if ! git -C /repo apply --whitespace=nowarn $patch 2>/dev/null; then echo "$id apply-failed"; continue; fi
  build=ok; (cd /repo && go build ./... ) >/dev/null 2>&1 || build=FAIL
  full=$(cd /verif && timeout 1800 ./check $prop --tier $tier 2>&1)
  git -C /repo checkout -q -- . ; git -C /repo clean -fdq
  verdict=MISSED; echo "$full" | grep -q "^VIOLATION property=$prop" && verdict=CAUGHT
  kind=failing-input; echo "$full" | grep "^VIOLATION property=$prop" | grep -q "no-failing-input-found" && kind=no-failing-input-found
  [ $verdict = MISSED ] && kind=-
  summary=$(echo "$full" | grep -E "^VIOLATION|tier=" | tr '\n' ' ' | cut -c1-300)
  echo "$id check=$prop build=$build tier=$tier $verdict $kind :: $summary" | tee -a /verif/seeded/results.txt
  if [ $verdict = CAUGHT ] && [ -f /verif/replays/$prop-1.json ]; then jq -c '{kind, broken: .broken_obligations, first: (.violations[0] // .disagreements[0] // null)}' /verif/replays/$prop-1.json 2>/dev/null | cut -c1-1500 > /verif/seeded/$id/check-output.json; fi
done
