#!/bin/bash
# development helper: 3-way merge the files a sub-agent changed in its scratch copy <copy>/verif (taken at commit <base>)
# into /verif.   ./mergecopy.sh <copy-dir> <base-commit>
copy=$1; base=$2; cd /verif
for f in $(git ls-tree -r --name-only $base -- lean harness DESIGN.md | grep -v '^lean/Csproto/Generated' | grep -v 'harness/go.mod' | grep -v 'harness/go.sum'); do
  [ -f $copy/verif/$f ] || continue
  git show $base:$f > /tmp/mc-base.$$ 2>/dev/null || continue
  cmp -s /tmp/mc-base.$$ $copy/verif/$f && continue          # agent did not change it
  if cmp -s /tmp/mc-base.$$ $f; then cp $copy/verif/$f $f; echo "took   $f"; continue; fi
  if git merge-file -q $f /tmp/mc-base.$$ $copy/verif/$f; then echo "merged $f"; else echo "CONFLICT $f"; fi
done
# new files
(cd $copy/verif && find lean/Csproto lean/Driver harness -type f \( -name '*.lean' -o -name '*.go' \) | grep -v '/.lake/' | grep -v 'Generated/') | while read f; do
  git cat-file -e $base:$f 2>/dev/null || { [ -f /verif/$f ] || { mkdir -p $(dirname /verif/$f); cp $copy/verif/$f /verif/$f; echo "new    $f"; }; }
done
rm -f /tmp/mc-base.$$
