#!/usr/bin/env python3
"""development helper: rewrite the seeded-change table of DESIGN.md (between the seeds:begin / seeds:end markers)
from seeded/*/meta.json."""
import json, os, re
root = '/verif/seeded'
rows = []
for d in sorted(os.listdir(root), key=lambda x: (x.split('-')[0], int(x.split('-')[1])) if re.match(r'C\d+-\d+$', x) else ('Z', 0)):
    if not re.match(r'C\d+-\d+$', d): continue
    m = json.load(open(os.path.join(root, d, 'meta.json')))
    files = ', '.join(os.path.basename(f) for f in m['files'])
    title = re.sub(r'^(patch|demo|seed)[ -]?\d+\s*[:—-]\s*', '', m['summary'], flags=re.I)
    title = title.replace('|', '/')[:150]
    fin = m['final'] + (f" ({m['final_kind']})" if m.get('final_kind') else '')
    also = (' +' + ','.join(m['also_caught_by'])) if m.get('also_caught_by') else ''
    rows.append(f"| {d} | {m['round']} | {files} | {title} | {m['first_run']} | {fin}{also} |")
tot = len(rows)
caught = sum(1 for r in rows if '| caught' in r.split('|')[-2] or r.split('|')[-2].strip().startswith('caught'))
block = ["<!-- seeds:begin -->", f"{tot} kept changes; final verdict `caught` for {caught}.", "",
         "| seed | round | file | change | first run | final (own property's quick check; +other checks that also catch it) |", "|---|---|---|---|---|---|"] + rows + ["<!-- seeds:end -->"]
s = open('/verif/DESIGN.md').read()
s = re.sub(r'<!-- seeds:begin -->.*?<!-- seeds:end -->', lambda _: '\n'.join(block), s, flags=re.S)
open('/verif/DESIGN.md', 'w').write(s)
print(tot, caught)
